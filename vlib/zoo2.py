"""Structured layers, combinators and flow bijections (built from the real constructors)."""
from __future__ import annotations

import numpy as np
import z3
from fractions import Fraction

from .zoo import Spec, Case, _nonzero
from .sym import *  # noqa
from . import jx

import jax
import jax.numpy as jnp
import jax.random as jr
import equinox as eqx

import flowjax.bijections as fb
from flowjax import flows
from flowjax.distributions import StandardNormal
from flowjax.wrappers import unwrap


def _scale_inv(s, ctx):
    out = []
    for nm, a in s.sym.items():
        if nm.endswith("scale") or ".scale" in nm or "scale" == nm.split(".")[-1]:
            out += [v != 0 for v in a.ravel() if jx.is_z(v)]
    return out


def _ypos(dims):
    def yc(s, v):
        return [Case("y>0 on exp coords", [v[i] > 0 for i in dims])]
    return yc


def chain_affine_exp():
    b = fb.Chain([fb.Affine(jnp.array([0.5, -1.0]), jnp.array([2.0, 0.5])), fb.Exp((2,))])
    return Spec("Chain([Affine(2,),Exp(2,)])", b, inv=_scale_inv, onto=False, y_cases=_ypos([(0,), (1,)]))


def chain_cond():
    lin = eqx.nn.Linear(2, 2, key=jr.PRNGKey(3))
    b = fb.Chain([fb.AdditiveCondition(lin, (2,), (2,)), fb.Affine(jnp.array([0.5, -1.0]), jnp.array([2.0, 0.5])), fb.Flip((2,))])
    return Spec("Chain([AdditiveCondition,Affine,Flip])", b, inv=_scale_inv)


def chain_nested():
    inner = fb.Chain([fb.Affine(jnp.array([0.5, -1.0]), jnp.array([2.0, 0.5])), fb.Permute(jnp.array([1, 0]))])
    b = fb.Chain([inner, fb.Invert(fb.Affine(jnp.array([0.1, 0.2]), jnp.array([3.0, 4.0]))), fb.Loc(jnp.array([1.0, 2.0]))])
    return Spec("Chain([Chain([Affine,Permute]),Invert(Affine),Loc])", b, inv=_scale_inv)


def scan_affine(n=3):
    params = jnp.arange(1, 1 + 2 * n, dtype=float).reshape(n, 2) * 0.3
    aff = eqx.filter_vmap(lambda p: fb.Affine(p, p + 0.5))(params)
    return Spec(f"Scan(vmap(Affine) x{n})", fb.Scan(aff), inv=_scale_inv)


def vmap_mapped():
    aff = eqx.filter_vmap(lambda p: fb.Affine(p, p + 0.5))(jnp.array([0.5, 1.5, 2.5]))
    return Spec("Vmap(Affine(),in_axes=0) size 3", fb.Vmap(aff, in_axes=eqx.if_array(0)), inv=_scale_inv)


def vmap_broadcast():
    return Spec("Vmap(Affine((2,)),axis_size=3)", fb.Vmap(fb.Affine(jnp.array([0.5, -1.0]), jnp.array([2.0, 0.5])), axis_size=3), inv=_scale_inv)


def vmap_cond(ax):
    lin = eqx.nn.Linear(2, 1, key=jr.PRNGKey(4))
    inner = fb.Reshape(fb.AdditiveCondition(lin, (1,), (2,)), ())
    return Spec(f"Vmap(AdditiveCondition,axis_size=3,in_axes_condition={ax})", fb.Vmap(inner, axis_size=3, in_axes_condition=ax))


def concat(axis, rank=1):
    if rank == 1:
        parts = [fb.Affine(jnp.array([0.5, -1.0]), jnp.array([2.0, 0.5])), fb.Affine(jnp.array([1.5]), jnp.array([3.0]))]
    else:
        parts = [fb.Affine(jnp.full((2, 1), 0.5), jnp.full((2, 1), 2.0)), fb.Affine(jnp.full((2, 2), -1.0), jnp.full((2, 2), 0.5))] if axis in (1, -1) else \
                [fb.Affine(jnp.full((1, 2), 0.5), jnp.full((1, 2), 2.0)), fb.Affine(jnp.full((2, 2), -1.0), jnp.full((2, 2), 0.5))]
    return Spec(f"Concatenate(axis={axis},rank={rank})", fb.Concatenate(parts, axis=axis), inv=_scale_inv)


def stack(axis, rank=1):
    sh = (2,) if rank == 1 else (2, 2)
    parts = [fb.Affine(jnp.full(sh, 0.5), jnp.full(sh, 2.0)), fb.Affine(jnp.full(sh, -1.0), jnp.full(sh, 0.5)), fb.Loc(jnp.full(sh, 0.25))]
    return Spec(f"Stack(axis={axis},rank={rank})", fb.Stack(parts, axis=axis), inv=_scale_inv)


def partial(kind):
    idx = {"int": 1, "slice": slice(0, 2), "intarr": jnp.array([2, 0]), "boolarr": jnp.array([True, False, True])}[kind]
    inner_shape = {"int": (), "slice": (2,), "intarr": (2,), "boolarr": (2,)}[kind]
    inner = fb.Affine(jnp.full(inner_shape, 0.5), jnp.full(inner_shape, 2.0))
    return Spec(f"Partial(Affine,{kind},shape=(3,))", fb.Partial(inner, idx, (3,)), inv=_scale_inv)


def invert_affine():
    return Spec("Invert(Affine(2,))", fb.Invert(fb.Affine(jnp.array([0.5, -1.0]), jnp.array([2.0, 0.5]))), inv=_scale_inv)


def invert_exp():
    return Spec("Invert(Exp())", fb.Invert(fb.Exp()), onto=True, x_cases=lambda s, v: [Case("x>0", [v[()] > 0])])


def reshape():
    return Spec("Reshape(Affine(4,),(2,2))", fb.Reshape(fb.Affine(jnp.arange(4.0), jnp.arange(1.0, 5.0)), (2, 2)), inv=_scale_inv)


def embed():
    lin = eqx.nn.Linear(1, 2, key=jr.PRNGKey(5))
    emb = eqx.nn.Linear(2, 1, key=jr.PRNGKey(6))
    return Spec("EmbedCondition(AdditiveCondition,Linear(2,1))", fb.EmbedCondition(fb.AdditiveCondition(lin, (2,), (1,)), emb, (2,)))


def coupling(dim=3, cond=None, width=2, depth=1, rqs=False):
    tr = flows._affine_with_min_scale() if not rqs else fb.RationalQuadraticSpline(knots=1, interval=2)
    b = fb.Coupling(jr.PRNGKey(7), transformer=tr, untransformed_dim=dim // 2 if dim > 1 else 1, dim=dim, cond_dim=cond, nn_width=width, nn_depth=depth)
    return Spec(f"Coupling(dim={dim},cond={cond},width={width},depth={depth}{',RQS' if rqs else ''})", b, unwrapped=False, tags=("staged",))


def maf(dim=3, cond=None, width=3, depth=1):
    b = fb.MaskedAutoregressive(jr.PRNGKey(8), transformer=flows._affine_with_min_scale(), dim=dim, cond_dim=cond, nn_width=width, nn_depth=depth)
    return Spec(f"MaskedAutoregressive(dim={dim},cond={cond},width={width},depth={depth})", b, unwrapped=False, tags=("staged",))


def bnaf(dim=2, depth=1, block=1, cond=None, concrete=False, act=None):
    """BlockAutoregressiveNetwork, unwrapped: block-lower-triangular weights whose block-diagonal entries are positive (the invariant proved
    for the wrappers in C09/C11); the numerical inverse is C10's subject (has_inverse=False here)"""
    import warnings
    from flowjax import masks
    with warnings.catch_warnings():
        warnings.simplefilter("ignore")
        kw = {} if act is None else dict(activation={"tanh": fb.Tanh(), "softplus": fb.SoftPlus()}[act])
        b = fb.BlockAutoregressiveNetwork(jr.PRNGKey(12), dim=dim, cond_dim=cond, depth=depth, block_dim=block, **kw)
    shapes = [(block, 1)] + [(block, block)] * (depth - 1) + [(1, block)] if depth > 0 else [(1, 1)]

    def masks_of(i):
        return np.asarray(masks.block_diag_mask(shapes[i], dim)), np.asarray(masks.block_tril_mask(shapes[i], dim))

    def override(s):
        k = 0
        for nm, arr in zip(s.P_names, s.P_sym):
            if nm.endswith("weight") and "layers" in nm:
                dg, tl = masks_of(k)
                assert arr.shape == dg.shape, (arr.shape, dg.shape)
                for idx in np.ndindex(arr.shape):
                    if not dg[idx] and not tl[idx]:
                        arr[idx] = Fraction(0)
                k += 1

    def inv(s, ctx):
        out = []
        k = 0
        for nm, arr in zip(s.P_names, s.P_sym):
            if nm.endswith("weight") and "layers" in nm:
                dg, _ = masks_of(k)
                out += [arr[idx] > 0 for idx in np.ndindex(arr.shape) if dg[idx]]
                k += 1
        return out
    return Spec(f"BlockAutoregressiveNetwork(dim={dim},depth={depth},block_dim={block},cond={cond}{',activation=' + act if act else ''}{',instance weights' if concrete else ''})", b, inv=inv, sym_override=override, has_inverse=False,
                tags=(("concreteP",) if concrete else ()),
                note="unwrapped weights: zero above the block diagonal, positive on it (C09/C11); inverse is numerical (C10)" + ("; weights fixed to the instance's values, x symbolic" if concrete else ""))


def flow_bij(kind, invert, cond=None, dim=2, layers=2):
    base = StandardNormal((dim,))
    key = jr.PRNGKey(9)
    if kind == "coupling":
        d = flows.coupling_flow(key, base_dist=base, cond_dim=cond, flow_layers=layers, nn_width=2, invert=invert)
    elif kind == "maf":
        d = flows.masked_autoregressive_flow(key, base_dist=base, cond_dim=cond, flow_layers=layers, nn_width=2, invert=invert)
    elif kind == "planar":
        d = flows.planar_flow(key, base_dist=base, cond_dim=cond, flow_layers=layers, invert=invert, negative_slope=0.1)
    return Spec(f"{kind}_flow(dim={dim},layers={layers},invert={invert},cond={cond}).bijection", d.bijection, unwrapped=False, tags=("staged",))


REG = {
    "chain_ae": chain_affine_exp, "chain_cond": chain_cond, "chain_nested": chain_nested,
    "scan3": lambda: scan_affine(3), "vmap_mapped": vmap_mapped, "vmap_bcast": vmap_broadcast,
    "vmap_c0": lambda: vmap_cond(0), "vmap_c1": lambda: vmap_cond(1), "vmap_cm1": lambda: vmap_cond(-1),
    "concat0": lambda: concat(0), "concatm1": lambda: concat(-1), "concat_r2_0": lambda: concat(0, 2), "concat_r2_m1": lambda: concat(-1, 2),
    "stack0": lambda: stack(0), "stack1": lambda: stack(1), "stackm1": lambda: stack(-1), "stack_r2_m1": lambda: stack(-1, 2), "stack_r2_1": lambda: stack(1, 2),
    "stack_r2_m2": lambda: stack(-2, 2),
    "partial_int": lambda: partial("int"), "partial_slice": lambda: partial("slice"), "partial_intarr": lambda: partial("intarr"), "partial_boolarr": lambda: partial("boolarr"),
    "invert_affine": invert_affine, "invert_exp": invert_exp, "reshape": reshape, "embed": embed,
    "coupling3": lambda: coupling(3), "coupling2c": lambda: coupling(2, 1), "coupling3d2": lambda: coupling(3, None, 2, 2), "coupling2rqs": lambda: coupling(2, None, 2, 1, True),
    "maf3": lambda: maf(3), "maf2c": lambda: maf(2, 1, 2, 1), "maf3d0": lambda: maf(3, None, 3, 0),
    "bnaf2": lambda: bnaf(2, 1, 1), "bnaf2b2": lambda: bnaf(2, 1, 2), "bnaf2d0": lambda: bnaf(2, 0, 1), "bnaf2c": lambda: bnaf(2, 1, 1, 1), "bnaf3": lambda: bnaf(3, 1, 1), "bnaf2d2": lambda: bnaf(2, 2, 1),
    "bnaf2d2b2_tanh_w": lambda: bnaf(2, 2, 2, None, True, "tanh"), "bnaf2d2b2_tanh": lambda: bnaf(2, 2, 2, None, False, "tanh"), "bnaf2d1b2_tanh": lambda: bnaf(2, 1, 2, None, False, "tanh"),
    "bnaf2d2b2_w": lambda: bnaf(2, 2, 2, None, True), "bnaf3d2b2_w": lambda: bnaf(3, 2, 2, None, True), "bnaf2d1b2_w": lambda: bnaf(2, 1, 2, None, True), "bnaf2cd2b2_w": lambda: bnaf(2, 2, 2, 1, True),
    "cflow_inv": lambda: flow_bij("coupling", True), "cflow_fwd": lambda: flow_bij("coupling", False), "cflow_inv_c": lambda: flow_bij("coupling", True, 1),
    "mflow_inv": lambda: flow_bij("maf", True), "mflow_fwd": lambda: flow_bij("maf", False),
    "pflow_inv": lambda: flow_bij("planar", True), "pflow_fwd": lambda: flow_bij("planar", False),
}


def get(name):
    return REG[name]()
