"""Hard-wall-clock solver portfolio: queries are exported as SMT-LIB2 and decided by z3 5.1.0
subprocesses (the binary shipped with the z3-solver wheel in /verif/.venv), one per strategy, in
parallel; the first definite answer wins and the others are killed.  In-process z3 does not honour
its own timeout / rlimit inside long nlsat steps (measured: a 20 s timeout overran to 700 s), so the
final proof obligations never run in-process.
"""
from __future__ import annotations

import os
import re
import subprocess
import sys
import tempfile
import time
from fractions import Fraction

import z3

Z3BIN = os.path.join(os.path.dirname(sys.executable), "z3")
if not os.path.exists(Z3BIN):
    Z3BIN = "/verif/.venv/bin/z3"

STRATEGIES = {
    "default": "(check-sat)",
    "purify-nlsat": "(check-sat-using (then simplify purify-arith qfnra-nlsat))",
    "smt": "(check-sat-using (then simplify smt))",
}


def time_scale():
    """wall-clock budgets are multiplied by VERIF_TIMEOUT_SCALE (set by the runner: machine load at start, x4 in the
    retry pass for obligations that ended inconclusive) so that a verdict does not depend on how busy the host is"""
    try:
        return max(0.25, float(os.environ.get("VERIF_TIMEOUT_SCALE", "1") or 1))
    except ValueError:
        return 1.0


def _tok(s):
    return re.findall(r"\(|\)|[^\s()]+", s)


def _parse(tokens, i=0):
    if tokens[i] == "(":
        out = []
        i += 1
        while tokens[i] != ")":
            v, i = _parse(tokens, i)
            out.append(v)
        return out, i + 1
    return tokens[i], i + 1


def _num(e):
    if isinstance(e, str):
        t = e.rstrip("?")
        if t in ("true", "false"):
            return t == "true"
        try:
            return Fraction(t)
        except Exception:
            return None
    if not e:
        return None
    h = e[0]
    if h == "-" and len(e) == 2:
        v = _num(e[1])
        return None if v is None else -v
    if h == "/" and len(e) == 3:
        a, b = _num(e[1]), _num(e[2])
        return None if a is None or b is None or b == 0 else Fraction(a) / Fraction(b)
    if h == "to_real" and len(e) == 2:
        return _num(e[1])
    if h == "+":
        vs = [_num(x) for x in e[1:]]
        return None if any(v is None for v in vs) else sum(vs)
    if h == "*":
        r = Fraction(1)
        for x in e[1:]:
            v = _num(x)
            if v is None:
                return None
            r *= v
        return r
    return None


class DictModel:
    """model restricted to the 0-ary constants (what a replay needs)"""

    def __init__(self, values, consts):
        self.values = values          # name -> Fraction / bool
        self.consts = consts          # name -> z3 const

    def eval(self, t, model_completion=True):
        subs = []
        for n, c in self.consts.items():
            v = self.values.get(n)
            if v is None:
                v = Fraction(0) if not z3.is_bool(c) else False
            if z3.is_bool(c):
                subs.append((c, z3.BoolVal(bool(v))))
            elif z3.is_int(c):
                subs.append((c, z3.IntVal(int(v))))
            else:
                subs.append((c, z3.RealVal(str(Fraction(v)))))
        return z3.simplify(z3.substitute(t, *subs)) if subs else z3.simplify(t)

    def decls(self):
        return list(self.consts.values())

    def __getitem__(self, c):
        return self.values.get(str(c))

    def as_dict(self):
        return {k: (float(v) if not isinstance(v, bool) else v) for k, v in self.values.items()}


def collect_consts(exprs):
    out = {}
    seen = set()
    st = list(exprs)
    while st:
        e = st.pop()
        i = e.get_id()
        if i in seen:
            continue
        seen.add(i)
        if z3.is_app(e):
            if e.num_args() == 0 and e.decl().kind() == z3.Z3_OP_UNINTERPRETED:
                out[e.decl().name()] = e
            st.extend(e.children())
    return out


def run_portfolio(constraints, strategies, timeout_s=60.0, want_model=True, trust_sat=None):
    """constraints: list of z3 Bool, or a list of alternative (equivalent) constraint lists.
    returns (result str, DictModel|None, info dict)"""
    variants = constraints if (constraints and isinstance(constraints[0], (list, tuple))) else [constraints]
    timeout_s = timeout_s * time_scale()
    t0 = time.time()
    procs = []
    tmpdir = tempfile.mkdtemp(prefix="vq", dir=os.environ.get("VERIF_TMP", None))
    text0 = None
    try:
        k = 0
        for vi, cons in enumerate(variants):
            sv = z3.Solver()
            sv.add(*cons)
            text = sv.to_smt2().replace("(check-sat)", "")
            if text0 is None:
                text0 = text
            consts = collect_consts(cons)
            names = [n for n in consts]
            strs = strategies[vi] if (strategies and isinstance(strategies[0], (list, tuple))) else strategies
            for st in strs:
                body = "(set-option :pp.decimal true)\n(set-option :pp.decimal_precision 40)\n" + text + "\n" + STRATEGIES[st] + "\n"
                if want_model and names:
                    body += "(get-value (" + " ".join(_quote(n) for n in names) + "))\n"
                fn = os.path.join(tmpdir, f"q{k}.smt2")
                k += 1
                with open(fn, "w") as f:
                    f.write(body)
                p = subprocess.Popen([Z3BIN, "-smt2", fn], stdout=subprocess.PIPE, stderr=subprocess.STDOUT, text=True)
                procs.append(((st, consts, True if trust_sat is None else trust_sat[vi]), p))
        text = text0
        result, model, winner = "unknown", None, None
        sat_cand = None
        pending = list(procs)
        while pending and time.time() - t0 < timeout_s:
            progressed = False
            for st, p in list(pending):
                if p.poll() is not None:
                    out = p.stdout.read()
                    pending.remove((st, p))
                    progressed = True
                    first = out.strip().split("\n", 1)[0].strip() if out.strip() else ""
                    errs = [l for l in out.split("\n") if "(error" in l and "model is not available" not in l]
                    if errs:
                        continue  # an error line makes this strategy's answer inconclusive
                    if first == "unsat":
                        result, winner = "unsat", st[0]
                        pending = []
                        break
                    if first == "sat" and not st[2]:
                        continue  # generalised (abstracted) variant: only `unsat` is meaningful
                    if first == "sat":
                        # with several equivalent formulations racing, `sat` of one of them is only a candidate
                        # (uninterpreted EXP/LOG make it possibly spurious): wait for the others, an `unsat` wins
                        if sat_cand is None or st[2] == "prefer":
                            sat_cand = (st[0], _read_model(out, st[1]) if want_model else None)
                        if len(variants) == 1:
                            pending = []
                            break
            if not progressed:
                time.sleep(0.01)
        if result == "unknown" and sat_cand is not None:
            result, winner, model = "sat", sat_cand[0], sat_cand[1]
        return result, model, dict(winner=winner, wall_s=time.time() - t0, smt2=text)
    finally:
        for st, p in procs:
            if p.poll() is None:
                p.kill()
            try:
                p.stdout.close()
            except Exception:
                pass
            try:
                p.wait(timeout=5)
            except Exception:
                pass
        for f in os.listdir(tmpdir):
            try:
                os.unlink(os.path.join(tmpdir, f))
            except OSError:
                pass
        try:
            os.rmdir(tmpdir)
        except OSError:
            pass


def _quote(n):
    if re.fullmatch(r"[A-Za-z_][A-Za-z0-9_]*", n):
        return n
    return "|" + n + "|"


def _read_model(out, consts):
    body = out.split("\n", 1)[1] if "\n" in out else ""
    vals = {}
    try:
        toks = _tok(body)
        if toks:
            tree, _ = _parse(toks, 0)
            for ent in tree:
                if isinstance(ent, list) and len(ent) == 2:
                    nm = ent[0].strip("|") if isinstance(ent[0], str) else None
                    v = _num(ent[1])
                    if nm is not None and v is not None:
                        vals[nm] = v
    except Exception:
        pass
    return DictModel(vals, consts)
