"""Generic E1 harness for bijection instances: round trips (C01), log-determinants (C02).

Every function here runs inside a worker process.  For a (spec, case):
  1. the real methods are traced with `jax.make_jaxpr` (parameters are explicit inputs),
  2. interpreted symbolically under the case assumption (path-sensitive),
  3. the image is *cut* (fresh variables + proved lemma about the image's location) before the second
     stage is interpreted, so every stage's decisions stay low-degree,
  4. the goal is decided by z3; `sat`/`unknown` start the witness search whose candidates are
     replayed on the real code in float64 before anything is reported.
"""
from __future__ import annotations

import time
from fractions import Fraction

import numpy as np
import z3

from .sym import *  # noqa
from . import jx, zoo
from .jx import Ctx, Interp, set_path, check, prove_eq, split, toreal, toz, is_z, STATS, DEC
from .core import rec

import jax
import jax.numpy as jnp


# ----------------------------------------------------------------------------------------
def _args(spec, x, c):
    a = list(spec.P_sym) + [x]
    if spec.cond_shape is not None:
        a.append(c)
    return a


def _ex_args(spec):
    a = [spec.P_ex, spec.x_ex]
    if spec.cond_shape is not None:
        a.append(spec.c_ex)
    return a


_TRACE_CACHE = {}


def traced(spec, method, extra=None):
    k = (spec.name, method)
    if k in _TRACE_CACHE:
        return _TRACE_CACHE[k]
    f = spec.fn(method) if extra is None else extra
    if spec.cond_shape is not None:
        j = jax.make_jaxpr(lambda P, x, c: f(P, x, c))(*_ex_args(spec))
    else:
        j = jax.make_jaxpr(lambda P, x: f(P, x))(*_ex_args(spec))
    _TRACE_CACHE[k] = j
    return j


def traced_jac(spec):
    k = (spec.name, "jac")
    if k in _TRACE_CACHE:
        return _TRACE_CACHE[k]
    f = spec.fn("transform")
    if spec.cond_shape is not None:
        j = jax.make_jaxpr(lambda P, x, c: jax.jacfwd(lambda xx: f(P, xx, c))(x))(*_ex_args(spec))
    else:
        j = jax.make_jaxpr(lambda P, x: jax.jacfwd(lambda xx: f(P, xx))(x))(*_ex_args(spec))
    _TRACE_CACHE[k] = j
    return j


def fresh_like(name, arr):
    return symarr(name, np.shape(arr))


def elems(a):
    return list(np.asarray(a, dtype=object).ravel())


def subst_pairs(fresh, actual):
    return [(f, toreal(split(a)[0])) for f, a in zip(elems(fresh), elems(actual)) if is_z(f)]


class Acc:
    """accumulates stats of one obligation"""

    def __init__(self):
        self.q0 = STATS.queries
        self.t0 = STATS.solver_s
        self.dn = DEC.n
        self.dt = DEC.t
        self.sample = None

    def stats(self):
        return dict(queries=(STATS.queries - self.q0) + (DEC.n - self.dn), solver_s=(STATS.solver_s - self.t0) + (DEC.t - self.dt))


def eq_goal(ctx, assume, lhs_arr, rhs_arr, name, subst=None, rlimit=30_000_000):
    """elementwise lhs == rhs and ok(lhs).  returns (status, model, detail)"""
    worst = "unsat"
    for idx in np.ndindex(np.shape(lhs_arr)):
        l, r = lhs_arr[idx], rhs_arr[idx]
        lt, lo, li = split(l)
        rt_ = split(r)[0]
        okl = jx.band(lo, (li == 0))
        if okl is not True:
            st, m = check(ctx, assume, toz(okl), name=name + f"{list(idx)}:defined", subst=subst, rlimit=rlimit)
            if st != "unsat":
                return st, m, f"definedness of element {idx}"
        st, m = prove_eq(ctx, assume, lt, rt_, name=name + f"{list(idx)}", subst=subst, rlimit=rlimit)
        if st != "unsat":
            return st, m, f"element {idx}"
    return worst, None, ""


def nontrivial_since(acc):
    return acc.stats()["queries"] > 0


# ----------------------------------------------------------------------------------------
# witness search + replay
# ----------------------------------------------------------------------------------------
def model_inputs(spec, m, xvar, cvar=None):
    P = [jx.model_floats(m, a) for a in spec.P_sym]
    x = jx.model_floats(m, xvar)
    c = None if spec.cond_shape is None else jx.model_floats(m, spec.c_sym)
    return P, x, c


def real_call(spec, method, P, x, c):
    P = spec.replay_P(P)
    Pj = [jnp.asarray(p, jnp.float64) for p in P]
    xj = jnp.asarray(x, jnp.float64)
    cj = None if c is None else jnp.asarray(c, jnp.float64)
    return spec.fn(method)(Pj, xj, cj)


def replay_roundtrip(spec_name, direction, P, x, c=None, kappa=None):
    """re-runs the round trip on the real code (eager float64). returns (reproduced, message)"""
    spec = zoo.get(spec_name)
    kappa = kappa or spec.kappa
    a, b_ = ("transform", "inverse") if direction == "fwd" else ("inverse", "transform")
    try:
        mid = real_call(spec, a, P, x, c)
        back = real_call(spec, b_, P, mid, c)
        first, _ = real_call(spec, a + "_and_log_det", P, x, c)
    except Exception as e:  # noqa
        return True, f"real code raised {type(e).__name__}: {e}"
    bad_rt = not close(back, x, 1e-6, kappa)
    bad_pair = not close(first, mid, 1e-9, 1.0)
    msg = f"{a}(x)={np.asarray(mid).tolist()} {b_}({a}(x))={np.asarray(back).tolist()} x={np.asarray(x).tolist()} {a}_and_log_det(x)[0]={np.asarray(first).tolist()}"
    return (bad_rt or bad_pair), msg


def replay_logdet(spec_name, direction, P, x, c=None, kappa=None):
    spec = zoo.get(spec_name)
    kappa = kappa or spec.kappa
    try:
        P = spec.replay_P(P)
        Pj = [jnp.asarray(p, jnp.float64) for p in P]
        xj = jnp.asarray(x, jnp.float64)
        cj = None if c is None else jnp.asarray(c, jnp.float64)
        f = spec.fn("transform")
        if direction == "fwd":
            y, ld = spec.fn("transform_and_log_det")(Pj, xj, cj)
            J = jax.jacfwd(lambda xx: f(Pj, xx, cj))(xj)
            n = int(np.prod(spec.shape)) if spec.shape else 1
            sign, lad = np.linalg.slogdet(np.asarray(J).reshape(n, n))
            # one-sided derivatives at kinks: also accept finite differences on either side
            cands = [lad]
            if n == 1:
                for h in (1e-6, -1e-6):
                    d = (float(f(Pj, xj + h, cj)) - float(f(Pj, xj, cj))) / h
                    if d != 0:
                        cands.append(float(np.log(abs(d))))
            bad = all(not close(ld, cnd, 1e-4, kappa) for cnd in cands) or np.shape(ld) != ()
            return bad, f"log_det={np.asarray(ld).tolist()} log|det J|={lad} (one-sided candidates {cands}) shape={np.shape(ld)}"
        xi, ldi = spec.fn("inverse_and_log_det")(Pj, xj, cj)
        _, ldf = spec.fn("transform_and_log_det")(Pj, xi, cj)
        bad = not close(ldi, -ldf, 1e-6, kappa) or np.shape(ldi) != ()
        return bad, f"inverse log_det={np.asarray(ldi).tolist()} -forward log_det at inverse(y)={np.asarray(-ldf).tolist()}"
    except Exception as e:  # noqa
        return True, f"real code raised {type(e).__name__}: {e}"


REPLAYS = {"roundtrip": replay_roundtrip, "logdet": replay_logdet}


def box_constraints(spec, var, cvar=None, big=8, sep=Fraction(1, 20)):
    """well-conditioned region used only while searching for replayable witnesses"""
    out = []
    for a in list(spec.P_sym) + [var] + ([cvar] if cvar is not None else []):
        for v in elems(a):
            if is_z(v) and z3.is_real(v):
                out += [v <= big, v >= -big]
    for nm, a in spec.sym.items():
        vs = [v for v in elems(a)]
        if "pos" in nm:
            out += [toreal(vs[i + 1]) - toreal(vs[i]) >= sep for i in range(len(vs) - 1)]
        if "scale" in nm or "derivatives" in nm or "triangular" in nm:
            out += [z3.Or(v >= sep, v <= -sep) for v in vs if is_z(v)]
    return out


def _is_eq(g):
    return is_z(g) and z3.is_eq(g) and not z3.is_bool(g.arg(0))


def witness_search(spec, kind, direction, case, build, var, acc, name, first=None):
    """`build(concrete_P: bool, extra_assume) -> (ctx, assume, goals:list[z3 bool], subst)`.
    Tries: the model of the failed proof, the boxed query, the query with parameters fixed to the instance's
    values; every candidate is replayed on the real code."""
    tried = 0
    cands = []
    if first is not None:
        cands.append(("model of the failed query", first))
    for concrete in (False, True):
        try:
            ctx, assume, goals, subst = build(concrete)
        except Exception as e:  # noqa
            continue
        oks = [toz(g) for g in goals if not _is_eq(g)]
        eqs = [toz(g) for g in goals if _is_eq(g)]
        for strong in (True, False):
            for boxed in (True, False):
                if not boxed and (ctx.exp_atoms or ctx.log_arg):
                    continue  # float saturation of exp/tanh outside the box would be mistaken for an algebraic error
                extra = box_constraints(spec, var, spec.c_sym) if boxed else []
                if strong:
                    if not eqs:
                        continue
                    # a definite wrong value: everything defined, some equation false
                    side = [c for c in ctx.side if is_z(c)]
                    g = z3.Or(z3.Not(z3.And(*(oks + side))) if (oks or side) else z3.BoolVal(False), z3.And(*eqs))
                else:
                    g = z3.And(*(oks + eqs)) if (oks or eqs) else z3.BoolVal(True)
                st, m = check(ctx, assume + extra, g, name="", subst=subst, timeout=30_000)
                if st == "sat":
                    cands.append((f"{'instance' if concrete else 'symbolic'} parameters, {'wrong value' if strong else 'undefined or wrong'}, {'boxed' if boxed else 'unboxed'}", (m, concrete)))
                    break
        if len(cands) >= 4:
            break
    for label, item in cands:
        m, concrete = item if isinstance(item, tuple) else (item, False)
        try:
            P, x, c = model_inputs(spec, m, var)
            if concrete or "concreteP" in spec.tags:
                P = [np.asarray(p) for p in spec.P_ex]     # the parameters are not variables of this query: replay on the instance's own
            tried += 1
            ok, msg = REPLAYS[kind](spec.key, direction, [np.asarray(p).tolist() for p in P], np.asarray(x).tolist(), None if c is None else np.asarray(c).tolist())
        except Exception as e:  # noqa
            import traceback
            traceback.print_exc()
            continue
        if ok:
            return rec(name, "violation", detail=f"[{label}] case {case.name}: {msg}",
                       replay=dict(func="bijreplay:run", kwargs=dict(kind=kind, spec_name=spec.key, direction=direction,
                                                                    P=[np.asarray(p).tolist() for p in P], x=np.asarray(x).tolist(),
                                                                    c=None if c is None else np.asarray(c).tolist())), **acc.stats())
    return rec(name, "inconclusive", detail=f"case {case.name}: not discharged and no replayable witness among {tried} candidates", **acc.stats())


# ----------------------------------------------------------------------------------------
# C01 obligations
# ----------------------------------------------------------------------------------------
S_stats = {"rewrites": 0, "rewrites_tried": 0}


def prove_staged(ctx, assume, okk, et, qt):
    if okk is not True:
        st, m = check(ctx, assume, toz(okk), name="", timeout=10_000)
        if st != "unsat":
            return st, m
    return prove_eq(ctx, assume, et, qt, name="", timeout=10_000)


def _stage(spec, case, direction, concrete=False, ctx=None, nocut=False):
    """interprets stage 1 (a), lemma, cut, stage 2 (b) and the `_and_log_det` variant of a.
    returns dict with everything needed for goals"""
    ctx = ctx or Ctx()
    ctx.ite_cap = 40
    I = Interp(ctx)
    inv = spec.invariants(ctx)
    var = spec.x_sym if direction == "fwd" else spec.y_sym
    cases = {c.name: c for c in (spec.x_cases() if direction == "fwd" else spec.y_cases())}
    case = cases[case.name] if not isinstance(case, str) else cases[case]
    assume = inv + case.assume
    a, b_ = ("transform", "inverse") if direction == "fwd" else ("inverse", "transform")
    ja, jb, jal = traced(spec, a), traced(spec, b_), traced(spec, a + "_and_log_det")
    Psym = spec.P_sym
    if concrete:
        Psym = [jx.oarr(np.asarray(p)) for p in spec.P_ex]
        assume = list(case.assume) + [toreal(split(s)[0]) == toreal(split(v)[0]) for S, V in zip(spec.P_sym, Psym) for s, v in zip(elems(S), elems(V)) if is_z(s)]
    set_path(assume, ctx.facts)
    seeds = spec.seeds(ctx, I, Psym, assume)
    if seeds:
        assume = assume + seeds
        DEC.add(*seeds)
    args = list(Psym) + [var] + ([spec.c_sym] if spec.cond_shape is not None else [])
    staged = "staged" in spec.tags
    pool = [np.asarray(var, dtype=object)]
    if staged:
        def record(I_, i, carry):
            for a_ in carry:
                if np.shape(a_) == np.shape(var) and a_.dtype == object and not any(a_ is q for q in pool):
                    pool.append(a_)
            return carry
        I.hooks["scan_iter"] = record
    mid = I.run(ja, *args)[0]
    if staged:
        pool.append(mid)
        I.hooks.pop("scan_iter", None)
    mid2, ld = I.run(jal, *args)
    if staged:
        # staged, solver-justified rewriting: after every scan iteration of stage 2 each carried element that is
        # provably equal to an intermediate value of stage 1 is replaced by it (one `unsat` per substitution)
        def canon(I_, i, carry):
            out = []
            for a_ in carry:
                if np.shape(a_) != np.shape(var) or a_.dtype != object:
                    out.append(a_)
                    continue
                a2 = a_.copy()
                for idx in np.ndindex(a2.shape):
                    e = a2[idx]
                    et = split(e)[0]
                    if not is_z(et):
                        continue
                    if any(is_z(split(q[idx])[0]) and split(q[idx])[0].eq(et) for q in pool):
                        continue
                    for q in ([pool[0]] + list(reversed(pool[1:]))):
                        qt = split(q[idx])[0]
                        if not is_z(qt) or isinstance(q[idx], jx.P):
                            continue
                        okk = jx.band(split(e)[1], split(e)[2] == 0)
                        g = z3.And(toz(okk), toreal(et) == toreal(qt))
                        st_, _ = prove_staged(ctx, assume, okk, et, qt)
                        S_stats["rewrites_tried"] += 1
                        if st_ == "unsat":
                            a2[idx] = qt
                            S_stats["rewrites"] += 1
                            break
                out.append(a2)
            return out
        I.hooks["scan_iter"] = canon
    if case.lemma and not nocut:
        # staged cut: stage 2 is interpreted on fresh variables constrained by the (separately proved) image lemma
        lem_mid = [toz(l) for l in case.lemma(np.vectorize(lambda v: toreal(split(v)[0]), otypes=[object])(mid))]
        fresh = fresh_like("m" if direction == "fwd" else "w", mid)
        lem_fresh = [toz(l) for l in case.lemma(fresh)]
        set_path(assume + lem_fresh, ctx.facts)
        sb = subst_pairs(fresh, mid)
    else:
        lem_mid, fresh, sb = [], mid, None
    args2 = list(Psym) + [fresh] + ([spec.c_sym] if spec.cond_shape is not None else [])
    back = I.run(jb, *args2)[0]
    set_path(None)
    return dict(ctx=ctx, assume=assume, var=var, mid=mid, mid2=mid2, ld=ld, fresh=fresh, back=back, lem_mid=lem_mid,
                subst=sb, case=case, interp=I)


def ob_roundtrip(spec_name, direction, case_name):
    """C01: b(a(v)) == v with definedness, a_and_log_det(v)[0] == a(v), for one case of the domain split"""
    spec = zoo.get(spec_name)
    cases = spec.x_cases() if direction == "fwd" else spec.y_cases()
    case = [c for c in cases if c.name == case_name][0]
    a, b_ = ("transform", "inverse") if direction == "fwd" else ("inverse", "transform")
    out = []
    base = f"C01/{spec.name}/{b_}({a}(v))==v/{case.name}"
    acc = Acc()
    try:
        S = _stage(spec, case, direction)
    except jx.Unsupported as e:
        return [rec(base, "error", detail=f"unsupported: {e}")]
    ctx, assume = S["ctx"], S["assume"]
    # vacuity twin: the case assumption must be satisfiable
    st, _ = check(ctx, assume, z3.BoolVal(False), name="", facts=False)
    vac = (st == "sat")
    if not vac:
        return [rec(base, "error", detail=f"vacuous case assumption ({st})", **acc.stats())]

    def build(concrete):
        S2 = _stage(spec, case, direction, concrete=concrete, nocut=True)
        goals = []
        for l, r in zip(elems(S2["back"]), elems(S2["var"])):
            lt, lo, li = split(l)
            goals.append(jx.band(lo, li == 0))
            goals.append(toreal(lt) == toreal(r))
        for l, r in zip(elems(S2["mid2"]), elems(S2["mid"])):
            goals.append(toreal(split(l)[0]) == toreal(split(r)[0]))
        for l in elems(S2["mid"]):
            goals.append(jx.band(split(l)[1], split(l)[2] == 0))
        return S2["ctx"], S2["assume"], goals, S2["subst"]

    # (1) a(v) defined on the whole case
    okmid = all_ok(S["mid"])
    st, m = check(ctx, assume, toz(okmid) if is_z(okmid) else okmid, name=base + ":defined")
    if st != "unsat":
        return [witness_search(spec, "roundtrip", direction, case, build, S["var"], acc, base + f"/{a}-defined", first=m)]
    # (2) lemma about the image (justifies the cut)
    if S["lem_mid"]:
        st, m = check(ctx, assume, z3.And(*S["lem_mid"]), name=base + ":image-lemma")
        if st != "unsat":
            return [witness_search(spec, "roundtrip", direction, case, build, S["var"], acc, base + "/image-lemma", first=m)]
    # (3) round trip
    st, m, where = eq_goal(ctx, assume, S["back"], S["var"], base, subst=S["subst"])
    if st != "unsat":
        return [witness_search(spec, "roundtrip", direction, case, build, S["var"], acc, base, first=m)]
    out.append(rec(base, "discharged", vacuity=True, nontrivial=nontrivial_since(acc), sample=_sample(), **acc.stats()))
    # (4) the '...and_log_det' variant returns the same point
    acc2 = Acc()
    n2 = f"C01/{spec.name}/{a}_and_log_det(v)[0]=={a}(v)/{case.name}"
    st, m, where = eq_goal(ctx, assume, S["mid2"], S["mid"], n2)
    if st != "unsat":
        out.append(witness_search(spec, "roundtrip", direction, case, build, S["var"], acc2, n2, first=m))
    else:
        out.append(rec(n2, "discharged", nontrivial=nontrivial_since(acc2), **acc2.stats()))
    return out


def _sample():
    if STATS.samples:
        s = STATS.samples[-1]
        return dict(smt2=s["smt2"], result=s["result"])
    return None


# ----------------------------------------------------------------------------------------
# C02 obligations
# ----------------------------------------------------------------------------------------
def det(M):
    """determinant of an object matrix by cofactor expansion with folding"""
    n = M.shape[0]
    if n == 0:
        return Fraction(1)
    if n == 1:
        return M[0, 0]
    if n == 2:
        return jx.sub(jx.mul(M[0, 0], M[1, 1]), jx.mul(M[0, 1], M[1, 0]))
    # expand along the row with most concrete zeros
    zc = [sum(1 for v in M[i] if not jx.is_sym(v) and v == 0) for i in range(n)]
    i = int(np.argmax(zc))
    tot = Fraction(0)
    for j in range(n):
        v = M[i, j]
        if not jx.is_sym(v) and v == 0:
            continue
        minor = np.delete(np.delete(M, i, axis=0), j, axis=1)
        term = jx.mul(v, det(minor))
        tot = jx.add(tot, term) if (i + j) % 2 == 0 else jx.sub(tot, term)
    return tot


def ob_logdet_fwd(spec_name, case_name):
    """C02: exp(log_det_fwd(x)) == |det d transform / dx| (autodiff jaxpr as oracle), scalar shape"""
    spec = zoo.get(spec_name)
    case = [c for c in spec.x_cases() if c.name == case_name][0]
    base = f"C02/{spec.name}/exp(logdet)==|det J|/{case.name}"
    acc = Acc()
    jal, jJ = traced(spec, "transform_and_log_det"), traced_jac(spec)
    ldshape = tuple(jal.out_avals[1].shape)
    if ldshape != ():
        return [rec(base, "violation", detail=f"log-det aval shape {ldshape} != ()",
                    replay=dict(func="bijreplay:run", kwargs=dict(kind="logdet", spec_name=spec.key, direction="fwd",
                                                                 P=[np.asarray(p).tolist() for p in spec.P_ex], x=np.asarray(spec.x_ex).tolist(),
                                                                 c=None if spec.c_ex is None else np.asarray(spec.c_ex).tolist())))]

    def run(concrete=False, case_=case, point=None):
        ctx = Ctx()
        ctx.ite_cap = 40
        I = Interp(ctx)
        inv = spec.invariants(ctx)
        cs = {c.name: c for c in spec.x_cases()}[case_.name]
        assume = inv + cs.assume
        Psym = spec.P_sym
        if concrete or "concreteP" in spec.tags:
            # instance parameters (tag concreteP: the obligation quantifies over x and the condition only, stated in the spec's note)
            Psym = [jx.oarr(np.asarray(p)) for p in spec.P_ex]
            assume = list(cs.assume)
        set_path(assume, ctx.facts)
        seeds = spec.seeds(ctx, I, Psym, assume)
        if seeds:
            assume = assume + seeds
            DEC.add(*seeds)
        args = list(Psym) + [spec.x_sym] + ([spec.c_sym] if spec.cond_shape is not None else [])
        J = I.run(jJ, *args)[0]
        if "staged" in spec.tags and not concrete:
            # lemma seeding: signs of the diagonal of a syntactically triangular Jacobian are proved one by one and
            # asserted for the decider, so that |.| inside the traced log-det folds
            n_ = int(np.prod(spec.shape)) if spec.shape else 1
            M = np.asarray(J, dtype=object).reshape(n_, n_)
            tri = all((not jx.is_sym(M[i, k]) and M[i, k] == 0) for i in range(n_) for k in range(i + 1, n_)) or \
                all((not jx.is_sym(M[i, k]) and M[i, k] == 0) for i in range(n_) for k in range(i))
            if tri:
                for i in range(n_):
                    dt, do, di = split(M[i, i])
                    if not is_z(dt):
                        continue
                    for sgn in (toreal(dt) > 0, toreal(dt) < 0):
                        st_, _ = check(ctx, assume, z3.And(toz(jx.band(do, di == 0)), sgn), name="", timeout=15_000)
                        if st_ == "unsat":
                            assume = assume + [sgn]
                            DEC.add(sgn)
                            break
        y, ld = I.run(jal, *args)
        set_path(None)
        return ctx, assume, ld, J

    def goal_of(ctx, ld, J, Jalt=()):
        n = int(np.prod(spec.shape)) if spec.shape else 1
        ldv = ld[()]
        okld = ok_of(ldv)
        eld = jx.sexp(ctx, split(ldv)[0])
        gs = [toz(okld) if is_z(okld) else z3.BoolVal(bool(okld))]
        alts = []
        for Jm in (J,) + tuple(Jalt):
            D = det(np.asarray(Jm, dtype=object).reshape(n, n))
            Dt, Do, Di = split(D)
            okD = jx.band(Do, Di == 0)
            alts.append(z3.And(toz(okD) if is_z(okD) else z3.BoolVal(bool(okD)), toreal(split(eld)[0]) == zabs(toreal(Dt))))
        gs.append(z3.Or(*alts) if len(alts) > 1 else alts[0])
        return gs

    try:
        ctx, assume, ld, J = run()
        Jalt = []
        if case.kink:
            # one-sided oracle: derivative terms of the adjacent open cases at the boundary point
            for nb in case.neighbours:
                nbc = {c.name: c for c in spec.x_cases()}[nb]
                c2, a2, ld2, J2 = run(case_=nbc)
                ctx.facts += c2.facts
                Jalt.append(np.vectorize(lambda v: _subst_val(v, case.point), otypes=[object])(np.asarray(J2, dtype=object)))
    except jx.Unsupported as e:
        return [rec(base, "error", detail=f"unsupported: {e}")]
    st, _ = check(ctx, assume, z3.BoolVal(False), facts=False)
    if st != "sat":
        return [rec(base, "error", detail=f"vacuous case assumption ({st})")]
    gs = goal_of(ctx, ld, J, Jalt if case.kink else ())
    st, m = check(ctx, assume, z3.And(*gs), name=base)

    def build(concrete):
        c3, a3, ld3, J3 = run(concrete=concrete)
        return c3, a3, goal_of(c3, ld3, J3, Jalt if case.kink else ()), None
    if st != "unsat":
        return [witness_search(spec, "logdet", "fwd", case, build, spec.x_sym, acc, base, first=m)]
    return [rec(base, "discharged", vacuity=True, nontrivial=nontrivial_since(acc), sample=_sample(), **acc.stats())]


def _subst_val(v, point):
    t, o, i = split(v)
    if is_z(t):
        t = z3.substitute(t, *point)
    if is_z(o):
        o = z3.substitute(o, *point)
    return jx.join(t, o, i)


def ob_logdet_inv(spec_name, case_name):
    """C02: log_det_inv(y) == -log_det_fwd(inverse(y)), scalar shape"""
    spec = zoo.get(spec_name)
    case = [c for c in spec.y_cases() if c.name == case_name][0]
    base = f"C02/{spec.name}/logdet_inv(y)==-logdet_fwd(inverse(y))/{case.name}"
    acc = Acc()
    ji, jil, jfl = traced(spec, "inverse"), traced(spec, "inverse_and_log_det"), traced(spec, "transform_and_log_det")
    if tuple(jil.out_avals[1].shape) != ():
        return [rec(base, "violation", detail=f"inverse log-det aval shape {tuple(jil.out_avals[1].shape)} != ()",
                    replay=dict(func="bijreplay:run", kwargs=dict(kind="logdet", spec_name=spec.key, direction="inv",
                                                                 P=[np.asarray(p).tolist() for p in spec.P_ex], x=np.asarray(spec.x_ex).tolist(),
                                                                 c=None if spec.c_ex is None else np.asarray(spec.c_ex).tolist())))]

    def run(concrete=False):
        ctx = Ctx()
        ctx.ite_cap = 40
        I = Interp(ctx)
        inv = spec.invariants(ctx)
        cs = {c.name: c for c in spec.y_cases()}[case.name]
        assume = inv + cs.assume
        Psym = spec.P_sym
        if concrete:
            Psym = [jx.oarr(np.asarray(p)) for p in spec.P_ex]
            assume = list(cs.assume)
        set_path(assume, ctx.facts)
        seeds = spec.seeds(ctx, I, Psym, assume)
        if seeds:
            assume = assume + seeds
            DEC.add(*seeds)
        cargs = [spec.c_sym] if spec.cond_shape is not None else []
        xi = I.run(ji, *Psym, spec.y_sym, *cargs)[0]
        # lemma seeding: the location of inverse(y) is proved once and asserted for the decider
        lem = [toz(l) for l in cs.lemma(np.vectorize(lambda v: toreal(split(v)[0]), otypes=[object])(xi))] if cs.lemma else []
        lem_ok = True
        if lem:
            st, _ = check(ctx, assume, z3.And(*lem), name=base + ":image-lemma")
            lem_ok = st == "unsat"
            if lem_ok:
                DEC.add(*lem)
        xi2, ldi = I.run(jil, *Psym, spec.y_sym, *cargs)
        if cs.lemma and lem_ok and not concrete:
            fresh = fresh_like("w", xi)
            lem_fresh = [toz(l) for l in cs.lemma(fresh)]
            set_path(assume + lem_fresh, ctx.facts)
            sb = subst_pairs(fresh, xi)
        else:
            fresh, sb = xi, None
        _, ldf = I.run(jfl, *Psym, fresh, *cargs)
        set_path(None)
        return ctx, assume, ldi, ldf, sb

    try:
        ctx, assume, ldi, ldf, sb = run()
    except jx.Unsupported as e:
        return [rec(base, "error", detail=f"unsupported: {e}")]
    st, _ = check(ctx, assume, z3.BoolVal(False), facts=False)
    if st != "sat":
        return [rec(base, "error", detail=f"vacuous case assumption ({st})")]
    st, m, where = eq_goal(ctx, assume, ldi, np.vectorize(jx.neg, otypes=[object])(ldf), base, subst=sb)

    def build(concrete):
        c3, a3, ldi3, ldf3, sb3 = run(concrete)
        l, r = split(ldi3[()]), split(jx.neg(ldf3[()]))
        return c3, a3, [jx.band(l[1], l[2] == 0), toreal(l[0]) == toreal(r[0])], sb3
    if st != "unsat":
        return [witness_search(spec, "logdet", "inv", case, build, spec.y_sym, acc, base, first=m)]
    return [rec(base, "discharged", vacuity=True, nontrivial=nontrivial_since(acc), sample=_sample(), **acc.stats())]
