"""replay entry point for bijection witnesses (./vcheck replay <file>)"""
from ..bij import REPLAYS


def run(kind, spec_name, direction, P, x, c=None):
    return REPLAYS[kind](spec_name, direction, P, x, c)
