"""C03 - transformed densities obey change of variables on both evaluation paths (E1: equivalence of two traces of public methods)."""
from __future__ import annotations

from fractions import Fraction

import numpy as np
import z3

from ..core import rec

META = dict(
    files=["flowjax/distributions.py", "flowjax/flows.py", "flowjax/bijections/utils.py", "flowjax/bijections/chain.py"],
    functions=["AbstractTransformed._log_prob / _sample / _sample_and_log_prob via the public log_prob / sample / sample_and_log_prob", "merge_transforms",
               "coupling_flow / masked_autoregressive_flow / planar_flow (both orientations, conditional or not)"],
    trusted_base=["vlib/jx.py; random primitives are uninterpreted functions of the key (same key => same draw by congruence)", "z3 5.1.0"],
    assumptions=["floats as exact reals", "block_neural_autoregressive_flow / triangular_spline_flow cannot be constructed in this environment (outside the claim)",
                 "the third clause (log-prob returned with a sample == log_prob at that sample) is proved where the C01 round trip is available inside the query (affine-type transforms); elsewhere it follows from clauses 1-2 with C01/C02"],
    bounds=dict(quick="dim 2, flow_layers 1-2, nn_width 2; leaves Affine/Exp/Tanh/SoftPlus/RQS(K=1)", thorough="flow_layers 2, dim 3"),
)


def _dists():
    import jax.numpy as jnp
    import jax.random as jr
    import equinox as eqx
    import flowjax.bijections as fb
    import flowjax.distributions as fd
    from flowjax import flows
    from flowjax.wrappers import unwrap
    key = jr.PRNGKey(2)
    N2 = lambda: fd.Normal(jnp.array([0.3, -0.2]), jnp.array([1.5, 0.7]))
    lin = eqx.nn.Linear(1, 2, key=jr.PRNGKey(3))
    D = {
        "normal": lambda: N2(),
        "T(Normal,Affine)": lambda: fd.Transformed(N2(), fb.Affine(jnp.array([1.0, 2.0]), jnp.array([0.5, 3.0]))),
        "T(StdNormal,Exp)": lambda: fd.Transformed(fd.StandardNormal((2,)), fb.Exp((2,))),
        "T(Uniform,Affine) [bounded-support base]": lambda: fd.Transformed(fd.Uniform(jnp.array([0.0, -1.0]), jnp.array([1.0, 2.0])), fb.Affine(jnp.array([1.0, 2.0]), jnp.array([0.5, 3.0]))),
        "T(Exponential,Affine) [half-line base]": lambda: fd.Transformed(fd.Exponential(jnp.array([1.5, 0.7])), fb.Affine(jnp.array([1.0, 2.0]), jnp.array([0.5, 3.0]))),
        "Uniform [= Transformed(standard uniform, Affine)]": lambda: fd.Uniform(jnp.array([0.0, -1.0]), jnp.array([1.0, 2.0])),
        "Exponential [= Transformed(standard exponential, Scale)]": lambda: fd.Exponential(jnp.array([1.5, 0.7])),
        "Normal [scale replaced through tree_at: any non-zero sign]": lambda: eqx.tree_at(lambda d: d.bijection.scale, unwrap(fd.Normal(jnp.array([0.3, -0.2]), jnp.array([1.5, 0.7]))), jnp.array([-1.5, 0.7])),
        "Laplace [scale replaced through tree_at: any non-zero sign]": lambda: eqx.tree_at(lambda d: d.bijection.scale, unwrap(fd.Laplace(jnp.array([0.3]), jnp.array([1.5]))), jnp.array([-1.5])),
        "LogNormal": lambda: fd.LogNormal(jnp.array([0.1, 0.2]), jnp.array([1.1, 0.9])),
        "T(StdNormal,Tanh)": lambda: fd.Transformed(fd.StandardNormal(()), fb.Tanh()),
        "T(StdNormal,SoftPlus)": lambda: fd.Transformed(fd.StandardNormal(()), fb.SoftPlus()),
        "T(StdNormal,Invert(Affine))": lambda: fd.Transformed(fd.StandardNormal((2,)), fb.Invert(fb.Affine(jnp.array([1.0, 2.0]), jnp.array([0.5, 3.0])))),
        "T(Normal,AdditiveCondition) [conditional bijection, unconditional base]": lambda: fd.Transformed(N2(), fb.AdditiveCondition(lin, (2,), (1,))),
        "T(T(Normal,AdditiveCondition),Affine) [conditional base, unconditional bijection]":
            lambda: fd.Transformed(fd.Transformed(N2(), fb.AdditiveCondition(lin, (2,), (1,))), fb.Affine(jnp.array([1.0, 2.0]), jnp.array([0.5, 3.0]))),
        "nested with Chain levels": lambda: fd.Transformed(fd.Transformed(fd.StandardNormal((2,)), fb.Chain([fb.Affine(jnp.array([0.5, 0.1]), jnp.array([2.0, 0.5])), fb.Exp((2,))])),
                                                          fb.Chain([fb.Affine(jnp.array([1.0, 2.0]), jnp.array([0.5, 3.0])), fb.Flip((2,)), fb.Loc(jnp.array([0.3, 0.4]))])),
        "coupling_flow(invert=True)": lambda: flows.coupling_flow(key, base_dist=fd.StandardNormal((2,)), flow_layers=1, nn_width=2, invert=True),
        "coupling_flow(invert=False)": lambda: flows.coupling_flow(key, base_dist=fd.StandardNormal((2,)), flow_layers=1, nn_width=2, invert=False),
        "coupling_flow(invert=True,cond)": lambda: flows.coupling_flow(key, base_dist=fd.StandardNormal((2,)), cond_dim=1, flow_layers=1, nn_width=2, invert=True),
        "coupling_flow(2 layers)": lambda: flows.coupling_flow(key, base_dist=fd.StandardNormal((2,)), flow_layers=2, nn_width=2, invert=True),
        "maf(invert=True)": lambda: flows.masked_autoregressive_flow(key, base_dist=fd.StandardNormal((2,)), flow_layers=1, nn_width=2, invert=True),
        "maf(invert=False,cond)": lambda: flows.masked_autoregressive_flow(key, base_dist=fd.StandardNormal((2,)), cond_dim=1, flow_layers=1, nn_width=2, invert=False),
        "maf(2 layers, invert=True)": lambda: flows.masked_autoregressive_flow(key, base_dist=fd.StandardNormal((2,)), flow_layers=2, nn_width=2, invert=True),
        "planar_flow(2 layers, invert=True)": lambda: flows.planar_flow(key, base_dist=fd.StandardNormal((2,)), flow_layers=2, invert=True, negative_slope=0.1),
        "planar_flow(invert=True)": lambda: flows.planar_flow(key, base_dist=fd.StandardNormal((2,)), flow_layers=1, invert=True, negative_slope=0.1),
        "planar_flow(invert=False)": lambda: flows.planar_flow(key, base_dist=fd.StandardNormal((2,)), flow_layers=1, invert=False, negative_slope=0.1),
    }
    return D


QUICK = ["T(Normal,Affine)", "Normal [scale replaced through tree_at: any non-zero sign]", "Laplace [scale replaced through tree_at: any non-zero sign]", "T(Uniform,Affine) [bounded-support base]", "T(Exponential,Affine) [half-line base]", "Uniform [= Transformed(standard uniform, Affine)]", "Exponential [= Transformed(standard exponential, Scale)]", "T(StdNormal,Exp)", "LogNormal", "T(StdNormal,Tanh)", "T(StdNormal,SoftPlus)", "T(StdNormal,Invert(Affine))",
         "T(Normal,AdditiveCondition) [conditional bijection, unconditional base]", "T(T(Normal,AdditiveCondition),Affine) [conditional base, unconditional bijection]",
         "nested with Chain levels", "coupling_flow(invert=True)", "coupling_flow(invert=False)", "coupling_flow(invert=True,cond)", "maf(invert=True)", "maf(invert=False,cond)",
         "planar_flow(invert=True)", "planar_flow(invert=False)", "coupling_flow(2 layers)"]
THOROUGH = QUICK + ["planar_flow(2 layers, invert=True)"]      # (a two-layer MAF does not discharge: sequential inverse inside the scan)
ROUNDTRIP_OK = {"T(Normal,Affine)", "T(StdNormal,Invert(Affine))", "T(StdNormal,Exp)", "T(Normal,AdditiveCondition) [conditional bijection, unconditional base]"}


PRE = []
STRICT_DEFINEDNESS = True     # False: equality is only required where both sides are defined (used where the model's definedness is known to be conservative)


def _setup(name):
    import jax
    jax.config.update("jax_enable_x64", True)
    import jax.numpy as jnp
    import jax.random as jr
    from ..sym import f64, leaves_of, symarr
    from flowjax.wrappers import unwrap
    # unwrapped parameters under their invariant (scale > 0): wrappers are C11/C12's subject
    d = unwrap(f64(_dists()[name]()))
    leaves, mk, paths = leaves_of(d)
    syms = [symarr(f"p{i}", l.shape) for i, l in enumerate(leaves)]
    PRE.clear()
    for sy, pth in zip(syms, paths):
        if pth.endswith(".scale"):
            # the documented way to obtain a negative scale is to replace the constrained parameter (Affine docstring): those instances
            # quantify over every non-zero scale, all others over the positive ones the default parameterisation can reach
            PRE.extend([(v != 0) if "any non-zero sign" in name else (v > 0) for v in sy.ravel()])
    x = symarr("x", d.shape)
    c = None if d.cond_shape is None else symarr("c", d.cond_shape)
    key = symarr("k", (2,), z3.IntSort())
    return d, leaves, mk, syms, x, c, key


def _cmp(name, label, ctx, lhs, rhs, assume_ok_rhs=True):
    from .. import jx
    from ..bij import eq_goal
    from ..sym import all_ok
    from ..jx import toz
    lhs = np.asarray(lhs, dtype=object)
    rhs = np.asarray(rhs, dtype=object)
    # phase 0: infinities agree - where the specification side is exactly -inf (+inf) so is the implementation side (a huge finite number or
    # NaN instead of -inf is a wrong density)
    for idx in np.ndindex(np.shape(rhs)):
        rt_, ro_, ri_ = jx.split(rhs[idx])
        lt_, lo_, li_ = jx.split(lhs[idx])
        if not jx.is_z(ri_) and ri_ == 0:
            continue
        for sgn in (-1, 1):
            if not jx.is_z(ri_) and ri_ != sgn:
                continue
            pre_inf = jx.band(ro_, (ri_ == sgn))
            if pre_inf is False:
                continue
            goal = jx.band(lo_, (li_ == sgn))
            st0, m0 = jx.check(ctx, list(PRE) + ([toz(pre_inf)] if jx.is_z(pre_inf) else []), toz(goal) if jx.is_z(goal) else z3.BoolVal(bool(goal)),
                               name=f"C03/{name}/{label}: specification {'-' if sgn < 0 else '+'}inf => implementation {'-' if sgn < 0 else '+'}inf")
            if st0 != "unsat":
                return st0, m0, f"element {idx}: the specification side is {'-' if sgn < 0 else '+'}inf but the implementation side is not"
    okr = all_ok(rhs)
    if okr is False:
        return "error", None, "specification side is undefined everywhere"
    # phase 1: wherever the specification side is defined, the implementation side is defined and equal
    assume = list(PRE) + ([okr] if jx.is_z(okr) else [])
    st, m, where = eq_goal(ctx, assume, lhs, rhs, f"C03/{name}/{label}")
    if st == "unsat" or "definedness" not in where:
        return st, m, where
    if st == "sat" and STRICT_DEFINEDNESS:
        # a model in which the specification side is a finite number but the implementation side is not: a candidate (the caller replays it)
        return st, m, where + " (the specification side is defined but the implementation side is not)"
    # phase 2 (definedness of the implementation side not decided): equality wherever both sides are defined
    okl = all_ok(lhs)
    if okl is False:
        return st, m, where
    if jx.is_z(okl):
        assume.append(okl)
    strip = np.vectorize(lambda v: jx.split(v)[0], otypes=[object])
    return eq_goal(ctx, assume, strip(lhs), strip(rhs), f"C03/{name}/{label} [where both sides are defined]")


def ob_dist(name):
    import jax
    import jax.numpy as jnp
    import jax.random as jr
    import flowjax.distributions as fd
    from .. import jx
    from ..jx import Ctx, Interp, set_path
    from ..sym import trace
    d, leaves, mk, syms, x, c, key = _setup(name)
    out = []
    cex = [] if c is None else [jnp.zeros(d.cond_shape)]
    cs = [] if c is None else [c]
    kex = jr.PRNGKey(0)

    def run(fns, args_ex, args_sym):
        ctx = Ctx()
        I = Interp(ctx)
        set_path(list(PRE), ctx.facts)
        res = []
        for f in fns:
            res.append(I.run(trace(f, *args_ex), *args_sym))
        set_path(None)
        return ctx, res

    def record(label, st, m, where, replay_kind):
        nm = f"C03/{name}/{label}"
        if st == "unsat":
            out.append(rec(nm, "discharged", vacuity=True))
            return
        ok, msg = replay(name, replay_kind)
        out.append(rec(nm, "violation" if ok else "inconclusive", detail=f"{st} at {where} | replay on the real distribution: {msg}",
                       replay=dict(func="c03:replay", kwargs=dict(name=name, kind=replay_kind))))

    # (1) log_prob(x) == base.log_prob(inverse(x)) + inverse log-det
    def lhs1(ls, xv, *cv):
        return mk(ls).log_prob(xv, *cv)

    def rhs1(ls, xv, *cv):
        dd = mk(ls)
        z, ld = dd.bijection.inverse_and_log_det(xv, *(cv if dd.bijection.cond_shape is not None else ()))
        return dd.base_dist.log_prob(z, *(cv if dd.base_dist.cond_shape is not None else ())) + ld
    try:
        ctx, (l, r) = run([lhs1, rhs1], [leaves, jnp.zeros(d.shape)] + cex, syms + [x] + cs)
        st, m, where = _cmp(name, "log_prob", ctx, l[0], r[0])
        record("log_prob(x) == base log-density at the inverse image + inverse log-det", st, m, where, "log_prob")
    except jx.Unsupported as e:
        out.append(rec(f"C03/{name}/log_prob", "error", detail=f"unsupported: {e}"))

    # (2) sample(key) == bijection.transform(base.sample(key))
    def lhs2(ls, k, *cv):
        return mk(ls).sample(k, (), *cv)

    def rhs2(ls, k, *cv):
        dd = mk(ls)
        b = dd.base_dist.sample(k, (), *(cv if dd.base_dist.cond_shape is not None else ()))
        return dd.bijection.transform(b, *(cv if dd.bijection.cond_shape is not None else ()))
    try:
        ctx, (l, r) = run([lhs2, rhs2], [leaves, kex] + cex, syms + [key] + cs)
        st, m, where = _cmp(name, "sample", ctx, l[0], r[0])
        record("sample(key) == bijection applied to the base sample for that key", st, m, where, "sample")
    except jx.Unsupported as e:
        out.append(rec(f"C03/{name}/sample", "error", detail=f"unsupported: {e}"))

    # (3) sample_and_log_prob(key) == (sample(key), log_prob(sample(key)))
    def lhs3(ls, k, *cv):
        return mk(ls).sample_and_log_prob(k, (), *cv)

    def rhs3(ls, k, *cv):
        dd = mk(ls)
        s_ = dd.sample(k, (), *cv)
        return s_, dd.log_prob(s_, *cv)
    try:
        ctx, (l, r) = run([lhs3, rhs3], [leaves, kex] + cex, syms + [key] + cs)
        st, m, where = _cmp(name, "joint sample", ctx, l[0], r[0], assume_ok_rhs=True)
        record("sample returned by sample_and_log_prob == sample(key)", st, m, where, "joint")
        if name in ROUNDTRIP_OK:
            st, m, where = _cmp(name, "joint log-prob", ctx, l[1], r[1])
            record("log-prob returned with a sample == log_prob evaluated at that sample", st, m, where, "joint")
    except jx.Unsupported as e:
        out.append(rec(f"C03/{name}/joint", "error", detail=f"unsupported: {e}"))

    # (4) merge_transforms preserves all three methods
    if isinstance(d, fd.AbstractTransformed) and isinstance(d.base_dist, fd.AbstractTransformed):
        try:
            ctx, (a, b) = run([lambda ls, xv, *cv: mk(ls).log_prob(xv, *cv), lambda ls, xv, *cv: mk(ls).merge_transforms().log_prob(xv, *cv)],
                              [leaves, jnp.zeros(d.shape)] + cex, syms + [x] + cs)
            st, m, where = _cmp(name, "merge log_prob", ctx, b[0], a[0])
            record("merge_transforms().log_prob == nested log_prob", st, m, where, "merge")
            ctx, (a, b) = run([lambda ls, k, *cv: mk(ls).sample(k, (), *cv), lambda ls, k, *cv: mk(ls).merge_transforms().sample(k, (), *cv)],
                              [leaves, kex] + cex, syms + [key] + cs)
            st, m, where = _cmp(name, "merge sample", ctx, b[0], a[0])
            record("merge_transforms().sample == nested sample", st, m, where, "merge")
        except jx.Unsupported as e:
            out.append(rec(f"C03/{name}/merge", "error", detail=f"unsupported: {e}"))
    return out


def replay(name, kind):
    """concrete float64 evaluation of the same identities on the real distribution (perturbed parameters, several keys / points)"""
    import jax
    import jax.numpy as jnp
    import jax.random as jr
    import equinox as eqx
    import flowjax.distributions as fd
    jax.config.update("jax_enable_x64", True)
    from ..sym import f64
    d = f64(_dists()[name]())
    params, static = eqx.partition(d, eqx.is_inexact_array)
    lv, td = jax.tree_util.tree_flatten(params)
    ks = jr.split(jr.PRNGKey(5), len(lv))
    d = eqx.combine(jax.tree_util.tree_unflatten(td, [l + 0.3 * jr.normal(k, l.shape, dtype=jnp.float64) for k, l in zip(ks, lv)]), static)
    c = None if d.cond_shape is None else jnp.arange(1.0, 1 + int(np.prod(d.cond_shape))).reshape(d.cond_shape) * 0.4
    cb = () if c is None else (c,)
    bad = []
    for s in range(3):
        k = jr.PRNGKey(s)
        x = d.sample(k, (), *cb)
        bc = cb if d.bijection.cond_shape is not None else ()
        dc = cb if d.base_dist.cond_shape is not None else ()
        if kind in ("log_prob", "joint", "merge", "all"):
            z, ld = d.bijection.inverse_and_log_det(x, *bc)
            want = d.base_dist.log_prob(z, *dc) + ld
            got = d.log_prob(x, *cb)
            if not np.allclose(got, want, rtol=1e-8, atol=1e-8):
                bad.append(f"log_prob({np.asarray(x).tolist()})={float(got)} but base log-density + inverse log-det = {float(want)}")
        if kind in ("sample", "joint", "merge", "all"):
            want = d.bijection.transform(d.base_dist.sample(k, (), *dc), *bc)
            if not np.allclose(x, want, rtol=1e-8, atol=1e-8):
                bad.append(f"sample={np.asarray(x).tolist()} but transform(base sample)={np.asarray(want).tolist()}")
        if kind in ("joint", "all"):
            try:
                s2, lp2 = d.sample_and_log_prob(k, (), *cb)
            except Exception as e:  # noqa - a well-formed call (same arguments as the sample / log_prob calls above) must not raise
                bad.append(f"sample_and_log_prob(key, (), condition) raised {type(e).__name__}: {e} although sample and log_prob accept the same arguments")
                continue
            if not np.allclose(s2, x, rtol=1e-8, atol=1e-8) or not np.allclose(lp2, d.log_prob(s2, *cb), rtol=1e-6, atol=1e-6):
                bad.append(f"sample_and_log_prob -> ({np.asarray(s2).tolist()}, {float(lp2)}) but log_prob(sample)={float(d.log_prob(s2, *cb))}")
        if kind == "merge" and isinstance(d.base_dist, fd.AbstractTransformed):
            mg = d.merge_transforms()
            if not np.allclose(mg.log_prob(x, *cb), d.log_prob(x, *cb), rtol=1e-8, atol=1e-8) or not np.allclose(mg.sample(k, (), *cb), x, rtol=1e-8, atol=1e-8):
                bad.append(f"merge_transforms changed the distribution: log_prob {float(mg.log_prob(x, *cb))} vs {float(d.log_prob(x, *cb))}; sample {np.asarray(mg.sample(k, (), *cb)).tolist()} vs {np.asarray(x).tolist()}")
    if kind in ("log_prob", "merge", "all"):
        # fixed probe points, including points whose inverse image lies outside the base support (the density there is exactly -inf)
        bc = cb if d.bijection.cond_shape is not None else ()
        dc = cb if d.base_dist.cond_shape is not None else ()
        for v in (-2.0, -0.5, 0.0, 0.5, 2.0):
            x = jnp.full(d.shape, v)
            try:
                z, ld = d.bijection.inverse_and_log_det(x, *bc)
                want = np.asarray(d.base_dist.log_prob(z, *dc) + ld, dtype=float)
                want = np.where(np.isnan(want), -np.inf, want)
                got = np.asarray(d.log_prob(x, *cb), dtype=float)
                if kind == "merge" and isinstance(d.base_dist, fd.AbstractTransformed):
                    got = np.asarray(d.merge_transforms().log_prob(x, *cb), dtype=float)
                    want = np.asarray(d.log_prob(x, *cb), dtype=float)
            except Exception as e:  # noqa
                continue
            same_inf = np.array_equal(np.isinf(want), np.isinf(got)) and np.array_equal(np.sign(want[np.isinf(want)]), np.sign(got[np.isinf(got)]))
            fin = np.isfinite(want)
            if np.any(np.isnan(got)) or not same_inf or not np.allclose(got[fin], want[fin], rtol=1e-8, atol=1e-8):
                bad.append(f"log_prob({v}) = {got.tolist()} but base log-density at the inverse image + inverse log-det = {want.tolist()}")
    return bool(bad), "; ".join(bad[:2]) or "identities hold on the replay points"


def obligations(tier, seed):
    names = QUICK if tier == "quick" else THOROUGH
    return [dict(name=n, func="c03:ob_dist", kwargs=dict(name=n), cost=10 if "flow" in n or "maf" in n else 2, replay=dict(func="c03:replay", kwargs=dict(name=n, kind="all"))) for n in names]
