"""C17 - loss functions compute their defining estimators (E1: trace equivalence against formulas composed from PUBLIC methods)."""
from __future__ import annotations

import itertools
from fractions import Fraction

import numpy as np
import z3

from ..core import rec

META = dict(
    files=["flowjax/train/losses.py", "flowjax/distributions.py", "flowjax/wrappers.py"],
    functions=["MaximumLikelihoodLoss.__call__", "ElboLoss.__call__ (stick_the_landing False / True) and its reverse-mode gradient", "ContrastiveLoss.__call__", "_get_contrastive_idxs"],
    trusted_base=["vlib/jx.py; random primitives are uninterpreted functions of the key (same key => same draw by congruence); sort = sorting network", "z3 5.1.0",
                  "JAX reverse-mode autodiff (the gradient jaxprs compared are both produced by jax.grad)", "exp/log laws of DESIGN section 8"],
    assumptions=["floats as exact reals", "ELBO/contrastive instances use unwrapped parameters under their invariant scale > 0 (wrappers are C11/C12's subject); the maximum-likelihood loss is checked on RAW wrapped parameters",
                 "contrastive loss value: the index matrix is enumerated over ALL valid index matrices (concrete), and separately proved valid for every value of the random bits"],
    bounds=dict(quick="batch 2-3, num_samples 2, n_contrastive 1..batch-1 for batch<=4 (indices) / batch<=3 (value); Normal, conditional Normal, coupling flow (1 layer, width 2)",
                thorough="batch 4 for the contrastive value, masked autoregressive flow for the ELBO identities, num_samples 3"),
    outside=["statistical quality of the estimators", "floating-point rounding (logsumexp stabilisation is proved exact in reals)"],
)


def _env():
    import jax
    jax.config.update("jax_enable_x64", True)
    import jax.numpy as jnp
    import jax.random as jr
    import equinox as eqx
    return jax, jnp, jr, eqx


def _dist(name):
    jax, jnp, jr, eqx = _env()
    import flowjax.distributions as fd
    import flowjax.bijections as fb
    from flowjax import flows
    if name == "Normal":
        return fd.Normal(jnp.array([0.3, -0.2]), jnp.array([1.5, 0.7]))
    if name == "Uniform (bounded support)":
        return fd.Uniform(jnp.array([0.0, -1.0]), jnp.array([1.0, 2.0]))
    if name == "Transformed(Normal,Affine)":
        return fd.Transformed(fd.Normal(jnp.array([0.3, -0.2]), jnp.array([1.5, 0.7])), fb.Affine(jnp.array([1.0, 2.0]), jnp.array([0.5, 3.0])))
    if name == "conditional Normal":
        lin = eqx.nn.Linear(1, 2, key=jr.PRNGKey(3))
        return fd.Transformed(fd.Normal(jnp.array([0.3, -0.2]), jnp.array([1.5, 0.7])), fb.AdditiveCondition(lin, (2,), (1,)))
    if name == "conditional scalar Normal":
        lin = eqx.nn.Linear(1, 1, key=jr.PRNGKey(3))
        return fd.Transformed(fd.Normal(jnp.array([0.3]), jnp.array([1.5])), fb.AdditiveCondition(lin, (1,), (1,)))
    if name == "coupling_flow":
        return flows.coupling_flow(jr.PRNGKey(0), base_dist=fd.StandardNormal((2,)), flow_layers=1, nn_width=2, invert=False)
    if name == "conditional coupling_flow":
        return flows.coupling_flow(jr.PRNGKey(0), base_dist=fd.StandardNormal((2,)), cond_dim=1, flow_layers=1, nn_width=2, invert=True)
    if name == "masked_autoregressive_flow":
        return flows.masked_autoregressive_flow(jr.PRNGKey(0), base_dist=fd.StandardNormal((2,)), flow_layers=1, nn_width=2, invert=False)
    raise KeyError(name)


_TD = {}


def _table_dists(batch):
    """a conditional 'distribution' and a 'prior' whose log-densities on the batch are ARBITRARY: row a of the data is the
    number a, condition b is the number b, and log q(x_a | c_b) = Q[a, b], log prior(x_a) = R[a] are free tables.
    Every (distribution, prior, batch) induces such tables, so the loss identity is proved for all of them at once."""
    jax, jnp, jr, eqx = _env()
    import flowjax.distributions as fd
    if "cls" not in _TD:
        class TableDist(fd.AbstractDistribution):
            table: object
            shape: tuple = ()
            cond_shape: tuple | None = ()

            def _log_prob(self, x, condition=None):
                a = x.astype(int)
                if condition is None:
                    return self.table[a]
                return self.table[a, condition.astype(int)]

            def _sample(self, key, condition=None):
                raise NotImplementedError

            def _sample_and_log_prob(self, key, condition=None):
                raise NotImplementedError
        _TD["cls"] = TableDist
    T = _TD["cls"]
    return (lambda Q: T(Q, (), ())), (lambda R: T(R, (), None))


def _setup(name, raw=False):
    """(params pytree builder, static, example leaves, symbolic leaves, invariant)"""
    jax, jnp, jr, eqx = _env()
    import flowjax
    from flowjax.wrappers import unwrap
    from ..sym import f64, symarr
    d = f64(_dist(name))
    if not raw:
        d = unwrap(d)
    params, static = eqx.partition(d, eqx.is_inexact_array, is_leaf=lambda l: isinstance(l, flowjax.wrappers.NonTrainable))
    lv, td = jax.tree_util.tree_flatten(params)
    paths = [jax.tree_util.keystr(p) for p, _ in jax.tree_util.tree_flatten_with_path(params)[0]]
    mkp = lambda ls: jax.tree_util.tree_unflatten(td, list(ls))
    syms = [symarr(f"p{i}", l.shape) for i, l in enumerate(lv)]
    pre = [] if raw else [v > 0 for sy, p in zip(syms, paths) if p.endswith("scale") for v in sy.ravel()]
    return d, mkp, static, lv, syms, pre


def _cmp(name, label, ctx, pre, lhs, rhs):
    from . import c03
    c03.PRE[:] = pre
    return c03._cmp(name, label, ctx, lhs, rhs)


def _done(out, nm, st, where, replay_fn, **kw):
    from .. import jx
    if st == "unsat":
        out.append(rec(nm, "discharged", vacuity=True))
        return
    ok, msg = replay_fn(**kw)
    out.append(rec(nm, "violation" if ok else "inconclusive", detail=f"{st} at {where} | replay on the real loss: {msg}",
                   replay=dict(func=f"c17:{replay_fn.__name__}", kwargs=kw)))


# ------------------------------------------------------------------------------------------------------------------
# maximum likelihood
# ------------------------------------------------------------------------------------------------------------------
def ob_ml(name, batch=3):
    jax, jnp, jr, eqx = _env()
    from flowjax.train import losses as L
    from flowjax.wrappers import unwrap
    from .. import jx
    from ..jx import Ctx, Interp, set_path
    from ..sym import symarr, trace
    d, mkp, static, lv, syms, pre = _setup(name, raw=True)
    X = symarr("x", (batch,) + tuple(d.shape))
    cond = d.cond_shape is not None
    C = symarr("c", (batch,) + tuple(d.cond_shape)) if cond else None
    loss = L.MaximumLikelihoodLoss()
    ctx = Ctx()
    I = Interp(ctx)
    set_path(list(pre), ctx.facts)
    cex = [jnp.zeros(C.shape)] if cond else []
    cs = [C] if cond else []
    out = []
    nm = f"C17/MaximumLikelihoodLoss({name}, batch {batch}) == -mean_i log_prob(x_i{', c_i' if cond else ''}) of the unwrapped distribution"
    try:
        lhs = I.run(trace(lambda ls, x, *c: loss(mkp(ls), static, x, *c), lv, jnp.zeros(X.shape), *cex), *syms, X, *cs)[0]
        j1 = trace(lambda ls, x, *c: unwrap(eqx.combine(mkp(ls), static)).log_prob(x, *c), lv, jnp.zeros(d.shape), *([jnp.zeros(d.cond_shape)] if cond else []))
        tot = Fraction(0)
        for i in range(batch):
            tot = jx.add(tot, I.run(j1, *syms, X[i], *([C[i]] if cond else []))[0][()])
        rhs = jx.neg(jx.mul(tot, Fraction(1, batch)))
    except jx.Unsupported as e:
        set_path(None)
        return [rec(nm, "error", detail=f"unsupported: {e}")]
    set_path(None)
    if tuple(np.shape(lhs)) != ():
        ok, msg = replay_ml(name=name, batch=batch)
        return [rec(nm, "violation" if ok else "inconclusive", detail=f"loss is not a scalar: shape {np.shape(lhs)} | {msg}", replay=dict(func="c17:replay_ml", kwargs=dict(name=name, batch=batch)))]
    st, m, where = _cmp(name, "ml", ctx, pre, lhs, jx.oarr_s(rhs))
    _done(out, nm, st, where, replay_ml, name=name, batch=batch)
    return out


def replay_ml(name, batch):
    jax, jnp, jr, eqx = _env()
    from flowjax.train import losses as L
    from flowjax.wrappers import unwrap
    d = _dist(name)
    params, static = eqx.partition(d, eqx.is_inexact_array)
    k1, k2 = jr.split(jr.PRNGKey(1))
    x = jr.normal(k1, (batch,) + tuple(d.shape))
    c = None if d.cond_shape is None else jr.normal(k2, (batch,) + tuple(d.cond_shape))
    got = L.MaximumLikelihoodLoss()(params, static, x, c)
    du = unwrap(d)
    want = -np.mean([float(du.log_prob(x[i], None if c is None else c[i])) for i in range(batch)])
    bad = np.shape(got) != () or not np.isclose(float(got), want, rtol=1e-5, atol=1e-6)
    return bool(bad), f"loss={np.asarray(got).tolist()} but -mean log_prob={want}"


# ------------------------------------------------------------------------------------------------------------------
# ELBO
# ------------------------------------------------------------------------------------------------------------------
def _target_of(t):
    import jax.numpy as jnp
    return lambda x: -t[0] * jnp.sum(x ** 2) + t[1] * jnp.sum(x) + t[2]


def _target_sym(jx, t, x):
    sq, sm = Fraction(0), Fraction(0)
    for e in np.asarray(x, dtype=object).ravel():
        sq = jx.add(sq, jx.mul(e, e))
        sm = jx.add(sm, e)
    return jx.add(jx.add(jx.neg(jx.mul(t[0], sq)), jx.mul(t[1], sm)), t[2])


def ob_elbo(name, num_samples=2, stl_value=True, grads=True, stl_ref=True):
    jax, jnp, jr, eqx = _env()
    from flowjax.train import losses as L
    from .. import jx
    from ..jx import Ctx, Interp, set_path
    from ..sym import symarr, trace
    d, mkp, static, lv, syms, pre = _setup(name)
    key = symarr("k", (2,), z3.IntSort())
    tco = symarr("t", (3,))
    N = num_samples
    out = []
    kw = dict(name=name, num_samples=N)

    def elbo(stl):
        return lambda ls, t, k: L.ElboLoss(_target_of(t), N, stick_the_landing=stl)(mkp(ls), static, k)
    ex = (lv, jnp.ones(3), jr.PRNGKey(0))
    ctx = Ctx()
    I = Interp(ctx)
    set_path(list(pre), ctx.facts)
    try:
        v0 = I.run(trace(elbo(False), *ex), *syms, tco, key)[0]
        v1 = I.run(trace(elbo(True), *ex), *syms, tco, key)[0]
        s, lp = I.run(trace(lambda ls, k: eqx.combine(mkp(ls), static).sample_and_log_prob(k, (N,)), lv, jr.PRNGKey(0)), *syms, key)
        s2 = I.run(trace(lambda ls, k: eqx.combine(mkp(ls), static).sample(k, (N,)), lv, jr.PRNGKey(0)), *syms, key)[0]
        j1 = trace(lambda ls, x: eqx.combine(mkp(ls), static).log_prob(x), lv, jnp.zeros(d.shape))
        tot, tot2 = Fraction(0), Fraction(0)
        for i in range(N):
            tot = jx.add(tot, jx.sub(lp[i], _target_sym(jx, tco, s[i])))
            tot2 = jx.add(tot2, jx.sub(I.run(j1, *syms, s2[i])[0][()], _target_sym(jx, tco, s2[i])))
        ref0 = jx.mul(tot, Fraction(1, N))
        ref1 = jx.mul(tot2, Fraction(1, N))
    except jx.Unsupported as e:
        set_path(None)
        return [rec(f"C17/ElboLoss({name})", "error", detail=f"unsupported: {e}")]
    set_path(None)
    st, m, where = _cmp(name, "elbo", ctx, pre, v0, jx.oarr_s(ref0))
    _done(out, f"C17/ElboLoss({name}, {N} samples) == mean_i(log q(x_i) - target(x_i)) with (x_i, log q(x_i)) = sample_and_log_prob(key)", st, where, replay_elbo, **kw)
    if stl_ref:
        st, m, where = _cmp(name, "elbo-stl", ctx, pre, v1, jx.oarr_s(ref1))
        _done(out, f"C17/ElboLoss({name}, stick_the_landing) == mean_i(log_prob(x_i) - target(x_i)) with x_i = sample(key)", st, where, replay_elbo, **kw)
    if stl_value:
        st, m, where = _cmp(name, "stl==plain", ctx, pre, v1, v0)
        _done(out, f"C17/ElboLoss({name}): value with stick_the_landing == value without, for every key and parameter value", st, where, replay_elbo, **kw)
    if not grads:
        return out
    # gradient of the stick-the-landing estimator == path derivative only (score-function term omitted)
    ctx = Ctx()
    I = Interp(ctx)
    set_path(list(pre), ctx.facts)

    def gref(ls, ls2, t, k):
        def g(th):
            smp = eqx.combine(mkp(th), static).sample(k, (N,))
            d2 = eqx.combine(mkp(ls2), static)
            return (d2.log_prob(smp) - jax.vmap(_target_of(t))(smp)).mean()
        return jax.grad(g)(ls)
    try:
        G1 = I.run(trace(lambda ls, t, k: jax.grad(lambda q: elbo(True)(q, t, k))(ls), *ex), *syms, tco, key)
        G0 = I.run(trace(lambda ls, t, k: jax.grad(lambda q: elbo(False)(q, t, k))(ls), *ex), *syms, tco, key)
        G2 = I.run(trace(gref, lv, lv, jnp.ones(3), jr.PRNGKey(0)), *syms, *syms, tco, key)
    except jx.Unsupported as e:
        set_path(None)
        out.append(rec(f"C17/ElboLoss({name}) gradient", "error", detail=f"unsupported: {e}"))
        return out
    set_path(None)
    worst = ("unsat", None, "")
    for a, b in zip(G1, G2):
        st, m, where = _cmp(name, "stl-grad", ctx, pre, a, b)
        if st != "unsat":
            worst = (st, m, where)
            break
    _done(out, f"C17/ElboLoss({name}, stick_the_landing): d loss/d params == path derivative d/dtheta mean(log q_theta'(T_theta(z)) - target(T_theta(z))) at theta'=theta (no score-function term)",
          worst[0], worst[2], replay_elbo_grad, **kw)
    # non-vacuity: the total derivative (plain estimator) differs from the path derivative somewhere
    diff = []
    for a, b in zip(G0, G1):
        for u, v in zip(np.asarray(a, dtype=object).ravel(), np.asarray(b, dtype=object).ravel()):
            ut, vt = jx.split(u)[0], jx.split(v)[0]
            if jx.is_z(ut) or jx.is_z(vt):
                diff.append(jx.toreal(ut) != jx.toreal(vt))
    nm = f"C17/ElboLoss({name}): the plain estimator's gradient contains a score-function term (differs from the stick-the-landing gradient for some parameters) [non-vacuity witness]"
    syntactically_different = any(not jx.toreal(jx.split(u)[0]).eq(jx.toreal(jx.split(v)[0])) for a, b in zip(G0, G1)
                                  for u, v in zip(np.asarray(a, dtype=object).ravel(), np.asarray(b, dtype=object).ravel()))
    ok, msg = witness_score_term(name, N)
    out.append(rec(nm, "discharged" if (syntactically_different and ok) else "inconclusive", vacuity=True, nontrivial=False,
                   detail=f"gradient terms differ syntactically: {syntactically_different}; concrete witness on the real loss: {msg}"))
    return out


def witness_score_term(name, N):
    jax, jnp, jr, eqx = _env()
    from flowjax.train import losses as L
    d = _dist(name)
    params, static = eqx.partition(d, eqx.is_inexact_array)
    tgt = lambda x: -0.7 * jnp.sum(x ** 2) + 0.3 * jnp.sum(x)
    g0 = eqx.filter_grad(L.ElboLoss(tgt, N))(params, static, jr.PRNGKey(3))
    g1 = eqx.filter_grad(L.ElboLoss(tgt, N, stick_the_landing=True))(params, static, jr.PRNGKey(3))
    a = np.concatenate([np.asarray(l).ravel() for l in jax.tree_util.tree_leaves(g0)])
    b = np.concatenate([np.asarray(l).ravel() for l in jax.tree_util.tree_leaves(g1)])
    return bool(np.max(np.abs(a - b)) > 1e-6), f"max |grad_plain - grad_stl| = {float(np.max(np.abs(a - b))):.3g}"


def replay_elbo(name, num_samples):
    jax, jnp, jr, eqx = _env()
    from flowjax.train import losses as L
    from ..sym import f64
    d = f64(_dist(name))
    params, static = eqx.partition(d, eqx.is_inexact_array)
    tgt = lambda x: -0.7 * jnp.sum(x ** 2) + 0.3 * jnp.sum(x) + 0.1
    bad = []
    for s in range(3):
        k = jr.PRNGKey(s)
        v0 = L.ElboLoss(tgt, num_samples)(params, static, k)
        v1 = L.ElboLoss(tgt, num_samples, stick_the_landing=True)(params, static, k)
        x, lp = d.sample_and_log_prob(k, (num_samples,))
        want = float(np.mean(np.asarray(lp) - np.asarray(jax.vmap(tgt)(x))))
        x2 = d.sample(k, (num_samples,))
        want1 = float(np.mean(np.asarray(d.log_prob(x2)) - np.asarray(jax.vmap(tgt)(x2))))
        if np.shape(v0) != () or not np.isclose(float(v0), want, rtol=1e-6, atol=1e-8):
            bad.append(f"key {s}: ElboLoss={float(v0)} but mean(log q - target) over sample_and_log_prob(key) = {want}")
        if not np.isclose(float(v1), want1, rtol=1e-6, atol=1e-8):
            bad.append(f"key {s}: ElboLoss(stl)={float(v1)} but mean(log_prob(sample(key)) - target) = {want1}")
        if not np.isclose(float(v1), float(v0), rtol=1e-6, atol=1e-8):
            bad.append(f"key {s}: value with stick_the_landing {float(v1)} != without {float(v0)}")
    return bool(bad), "; ".join(bad[:2]) or "identities hold on the replay keys"


def replay_elbo_grad(name, num_samples):
    jax, jnp, jr, eqx = _env()
    from flowjax.train import losses as L
    from ..sym import f64
    d = f64(_dist(name))
    params, static = eqx.partition(d, eqx.is_inexact_array)
    tgt = lambda x: -0.7 * jnp.sum(x ** 2) + 0.3 * jnp.sum(x) + 0.1
    bad = []
    for s in range(2):
        k = jr.PRNGKey(s)
        g1 = eqx.filter_grad(L.ElboLoss(tgt, num_samples, stick_the_landing=True))(params, static, k)

        def g(th):
            smp = eqx.combine(th, static).sample(k, (num_samples,))
            return (d.log_prob(smp) - jax.vmap(tgt)(smp)).mean()
        g2 = eqx.filter_grad(g)(params)
        a = np.concatenate([np.asarray(l).ravel() for l in jax.tree_util.tree_leaves(g1)])
        b = np.concatenate([np.asarray(l).ravel() for l in jax.tree_util.tree_leaves(g2)])
        if not np.allclose(a, b, rtol=1e-5, atol=1e-7):
            bad.append(f"key {s}: stick-the-landing gradient {a[:4].tolist()} != path derivative {b[:4].tolist()}")
    return bool(bad), "; ".join(bad[:2]) or "stick-the-landing gradient equals the path derivative on the replay keys"


# ------------------------------------------------------------------------------------------------------------------
# contrastive
# ------------------------------------------------------------------------------------------------------------------
def ob_contrastive_idxs(batch, n):
    """for EVERY value of the random bits each row gets n pairwise distinct other rows of the batch"""
    jax, jnp, jr, eqx = _env()
    from flowjax.train import losses as L
    from .. import jx
    from ..jx import Ctx, Interp, set_path
    from ..sym import symarr, trace
    nm = f"C17/_get_contrastive_idxs(batch={batch}, n_contrastive={n}): every row gets exactly {n} pairwise distinct in-range indices, none its own, for all random bits"
    kw = dict(batch=batch, n=n)
    try:
        j = trace(lambda k: L._get_contrastive_idxs(k, batch, n), jr.PRNGKey(0))
    except Exception as e:  # noqa
        ok, msg = replay_idxs(**kw)
        return [rec(nm, "violation" if ok else "error", detail=f"{type(e).__name__}: {str(e)[:200]} | {msg}", replay=dict(func="c17:replay_idxs", kwargs=kw))]
    if tuple(j.out_avals[0].shape) != (batch, n):
        ok, msg = replay_idxs(**kw)
        return [rec(nm, "violation" if ok else "inconclusive", detail=f"index matrix has shape {tuple(j.out_avals[0].shape)}, expected {(batch, n)} | {msg}", replay=dict(func="c17:replay_idxs", kwargs=kw))]
    ctx = Ctx()
    I = Interp(ctx)
    set_path([], ctx.facts)
    key = symarr("k", (2,), z3.IntSort())
    try:
        out = I.run(j, key)[0]
    except jx.Unsupported as e:
        set_path(None)
        return [rec(nm, "error", detail=f"unsupported: {e}")]
    set_path(None)
    goals = []
    for i in range(batch):
        row = [jx.split(v)[0] for v in out[i]]
        for a in row:
            goals += [a >= 0, a < batch, a != i]
        for p in range(n):
            for q in range(p + 1, n):
                goals.append(row[p] != row[q])
    goals = [jx.toz(g) if jx.is_z(g) else z3.BoolVal(bool(g)) for g in goals]
    st, m = jx.check(ctx, [], z3.And(*goals), name=nm)
    if st == "unsat":
        return [rec(nm, "discharged", vacuity=True)]
    ok, msg = replay_idxs(**kw)
    return [rec(nm, "violation" if ok else "inconclusive", detail=f"{st} | {msg}", replay=dict(func="c17:replay_idxs", kwargs=kw))]


def replay_idxs(batch, n):
    jax, jnp, jr, eqx = _env()
    from flowjax.train import losses as L
    bad = []
    for s in range(200):
        try:
            idx = np.asarray(L._get_contrastive_idxs(jr.PRNGKey(s), batch, n))
        except Exception as e:  # noqa
            return True, f"raised {type(e).__name__}: {str(e)[:200]}"
        if idx.shape != (batch, n):
            return True, f"shape {idx.shape} != {(batch, n)}"
        for i in range(batch):
            r = idx[i].tolist()
            if len(set(r)) != n or i in r or min(r) < 0 or max(r) >= batch:
                bad.append(f"key {s} row {i}: {r}")
        if bad:
            break
    return bool(bad), "; ".join(bad[:2]) or "indices valid for 200 keys"


def _index_matrices(batch, n):
    rows = []
    for i in range(batch):
        others = [k for k in range(batch) if k != i]
        rows.append(list(itertools.permutations(others, n)))
    return rows


def ob_contrastive_value(batch, n, which=0):
    """loss == mean_i [ logsumexp(l_i1..l_in, l_i+) - l_i+ ], l_ab = log q(x_a|c_b) - log prior(x_a) ARBITRARY, for a given valid index
    matrix (all index matrices are enumerated over the tasks); every row term >= 0"""
    jax, jnp, jr, eqx = _env()
    from flowjax.train import losses as L
    from .. import jx
    from ..jx import Ctx, Interp, set_path
    from ..sym import symarr, trace
    mkq, mkr = _table_dists(batch)
    rows = _index_matrices(batch, n)
    total = int(np.prod([len(r) for r in rows]))
    out = []
    kw = dict(batch=batch, n=n)
    orig = L._get_contrastive_idxs
    Q = symarr("q", (batch, batch))
    R = symarr("r", (batch,))
    xs = jnp.arange(float(batch))
    picks = range(total) if which is None else [which % total]
    tq = ts = 0
    fails = []
    for w in picks:
        IDX, rem = [], w
        for r in rows:
            IDX.append(r[rem % len(r)])
            rem //= len(r)
        nm0 = f"C17/ContrastiveLoss(arbitrary logits, batch={batch}, n_contrastive={n}, indices={IDX})"
        L._get_contrastive_idxs = lambda key, b, k: jnp.asarray(IDX)

        def f(q, r):
            dq = mkq(q)
            params, static = eqx.partition(dq, eqx.is_inexact_array)
            return L.ContrastiveLoss(mkr(r), n)(params, static, xs, xs, jr.PRNGKey(0))
        try:
            jl = trace(f, jnp.zeros((batch, batch)), jnp.zeros(batch))
        except Exception as e:  # noqa
            L._get_contrastive_idxs = orig
            ok, msg = replay_contrastive(**kw)
            return [rec(nm0, "violation" if ok else "error", detail=f"{type(e).__name__}: {str(e)[:200]} | {msg}", replay=dict(func="c17:replay_contrastive", kwargs=kw))]
        finally:
            L._get_contrastive_idxs = orig
        # logits of row i in the order the definition lists them: contrastive rows, then the positive one
        V = [[jx.toreal(Q[a, i]) - jx.toreal(R[a]) for a in list(IDX[i]) + [i]] for i in range(batch)]
        bad = None
        q0, s0 = jx.STATS.queries, jx.STATS.solver_s
        # the case split below (which logit of each row is a maximum) covers all real tables
        cov = z3.And(*[z3.Or(*[z3.And(*[(V[i][m_] > V[i][k_]) if k_ < m_ else (V[i][m_] >= V[i][k_]) for k_ in range(n + 1) if k_ != m_]) for m_ in range(n + 1)]) for i in range(batch)])
        stc, _ = jx.check(Ctx(), [], cov, name=nm0 + " case coverage", facts=False)
        if stc != "unsat":
            bad = (stc, "coverage of the case split")
        for mxv in (itertools.product(range(n + 1), repeat=batch) if bad is None else ()):
            ctx = Ctx()
            I = Interp(ctx)
            assume = [(V[i][mxv[i]] > V[i][k_]) if k_ < mxv[i] else (V[i][mxv[i]] >= V[i][k_]) for i in range(batch) for k_ in range(n + 1) if k_ != mxv[i]]   # mxv[i] = FIRST maximum of row i
            set_path(assume, ctx.facts)
            try:
                lhs = I.run(jl, Q, R)[0]
            except jx.Unsupported as e:
                set_path(None)
                return [rec(nm0, "error", detail=f"unsupported: {e}")]
            tot = None
            lemmas = []
            for i in range(batch):
                pos = V[i][n]
                mx_ = V[i][mxv[i]]
                S = None            # defining formula: log(sum_k exp(l_k)) - l+
                St = None           # the same with the row maximum factored out (an intermediate lemma, proved below)
                for l_ in V[i]:
                    e1 = jx.toreal(jx._sexp_plain(ctx, l_))
                    e2 = jx.toreal(jx._sexp_plain(ctx, z3.simplify(l_ - mx_)))
                    S = e1 if S is None else S + e1
                    St = e2 if St is None else St + e2
                lse = jx.toreal(jx._slog_plain(ctx, S)[0])
                lst = jx.toreal(jx._slog_plain(ctx, St)[0]) + mx_
                lemmas.append((i, lse, lst, pos))
                tot = (lst - pos) if tot is None else tot + (lst - pos)
            set_path(None)
            lt, lo, li = jx.split(lhs[()])
            st, m = jx.check(ctx, assume, jx.toz(jx.band(lo, li == 0)), name=nm0 + " defined")
            if st != "unsat":
                bad = (st, f"definedness, case max={mxv}")
                break
            st, m = jx.prove_eq(ctx, assume, lt, tot / batch, name=nm0 + f" case {mxv}")
            if st != "unsat":
                bad = (st, f"value, case max={mxv}")
                break
            for i, lse, lst, pos in lemmas:
                st, m = jx.prove_eq(ctx, assume, lst, lse, name=nm0 + f" row {i}: log-sum-exp with the maximum factored out == log(sum exp)")
                if st != "unsat":
                    bad = (st, f"row {i} stabilisation lemma, case max={mxv}")
                    break
                g = jx.cmp_exp(ctx, "ge", lse, pos)
                if g is None:
                    g = lse >= pos
                st, m = jx.check(ctx, assume, jx.toz(g) if jx.is_z(g) else z3.BoolVal(bool(g)), name=nm0 + f" row {i} >= 0")
                if st != "unsat":
                    bad = (st, f"non-negativity of row {i}, case max={mxv}")
                    break
            if bad is not None:
                break
        tq += jx.STATS.queries - q0
        ts += jx.STATS.solver_s - s0
        if bad is not None:
            ok, msg = replay_contrastive(**kw)
            fails.append(rec(nm0, "violation" if ok else "inconclusive", detail=f"{bad[0]} at {bad[1]} | replay on the real loss: {msg}", replay=dict(func="c17:replay_contrastive", kwargs=kw)))
            break
    if fails:
        return fails
    return [rec(f"C17/ContrastiveLoss(batch={batch}, n_contrastive={n}) == mean_i[ log(sum_j exp(l_ij) + exp(l_i+)) - l_i+ ] and every row term >= 0, for ARBITRARY logits, "
                + (f"all {total} valid index matrices" if which is None else f"index matrix #{which % total} of {total}: {IDX}"), "discharged", vacuity=True, queries=tq, solver_s=ts)]


def replay_contrastive(batch, n, name="conditional scalar Normal"):
    jax, jnp, jr, eqx = _env()
    import flowjax.distributions as fd
    from flowjax.train import losses as L
    from jax.scipy.special import logsumexp
    from ..sym import f64
    d = f64(_dist(name))
    prior = f64(fd.Normal(jnp.full(d.shape, 0.1), jnp.full(d.shape, 1.3)))
    params, static = eqx.partition(d, eqx.is_inexact_array)
    bad = []
    for s in range(4):
        k1, k2, k3 = jr.split(jr.PRNGKey(s), 3)
        x = jr.normal(k1, (batch,) + tuple(d.shape), dtype=jnp.float64)
        c = jr.normal(k2, (batch,) + tuple(d.cond_shape), dtype=jnp.float64)
        try:
            got = float(L.ContrastiveLoss(prior, n)(params, static, x, c, k3))
            idx = np.asarray(L._get_contrastive_idxs(k3, batch, n))
        except Exception as e:  # noqa
            return True, f"raised {type(e).__name__}: {str(e)[:200]}"
        if idx.shape != (batch, n):
            return True, f"index matrix shape {idx.shape}"
        tot = 0.0
        for i in range(batch):
            r = idx[i].tolist()
            if len(set(r)) != n or i in r:
                bad.append(f"key {s} row {i} uses indices {r}")
            lg = lambda xi: float(d.log_prob(xi, c[i]) - prior.log_prob(xi))
            v = np.array([lg(x[j]) for j in r] + [lg(x[i])])
            tot += float(logsumexp(v)) - v[-1]
        want = tot / batch
        if not np.isclose(got, want, rtol=1e-6, atol=1e-8) or got < -1e-12:
            bad.append(f"key {s}: loss {got} but defining cross-entropy {want}")
    return bool(bad), "; ".join(bad[:2]) or "loss equals the defining softmax cross-entropy on the replay keys"


def obligations(tier, seed):
    T = []
    for nm, b in (("Normal", 3), ("Uniform (bounded support)", 2), ("conditional Normal", 2), ("conditional coupling_flow", 2)):
        T.append(dict(name=f"ml/{nm}", func="c17:ob_ml", kwargs=dict(name=nm, batch=b), cost=3))
    N = 2 if tier == "quick" else 3
    T.append(dict(name="elbo/Normal", func="c17:ob_elbo", kwargs=dict(name="Normal", num_samples=N), cost=4))
    T.append(dict(name="elbo/coupling_flow", func="c17:ob_elbo", kwargs=dict(name="coupling_flow", num_samples=2, stl_value=False), cost=8))
    if tier != "quick":
        T.append(dict(name="elbo/Transformed(Normal,Affine)", func="c17:ob_elbo", kwargs=dict(name="Transformed(Normal,Affine)", num_samples=2, stl_value=False), cost=20))
        T.append(dict(name="elbo/masked_autoregressive_flow", func="c17:ob_elbo", kwargs=dict(name="masked_autoregressive_flow", num_samples=2, stl_value=False, grads=False, stl_ref=False), cost=8))
    for b in ((2, 3, 4) if tier == "quick" else (2, 3, 4, 5)):
        for n in range(1, b):
            if b == 5 and n not in (1, 4):
                continue
            T.append(dict(name=f"idxs/{b}/{n}", func="c17:ob_contrastive_idxs", kwargs=dict(batch=b, n=n), cost=2 + b))
    # value: every valid index matrix for batch <= 3 (quick); batch 4 sampled by seed in thorough
    T.append(dict(name="value/2/1", func="c17:ob_contrastive_value", kwargs=dict(batch=2, n=1, which=None), cost=3))
    for n in (1, 2):
        for w in range(8):
            T.append(dict(name=f"value/3/{n}/{w}", func="c17:ob_contrastive_value", kwargs=dict(batch=3, n=n, which=w), cost=4))
    if tier != "quick":
        for n in (1, 2, 3):
            for w in range(6):
                T.append(dict(name=f"value/4/{n}/{w}", func="c17:ob_contrastive_value", kwargs=dict(batch=4, n=n, which=7 * w + 13 * seed + n), cost=8))
    return T
