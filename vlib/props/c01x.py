"""C01 obligations for combinators, structured layers and flow bijections (zoo2)."""
COMB_QUICK = ["chain_ae", "chain_cond", "chain_nested", "scan3", "vmap_mapped", "vmap_bcast", "vmap_c0", "vmap_c1", "vmap_cm1",
              "concat0", "concatm1", "concat_r2_0", "concat_r2_m1", "stack0", "stack1", "stackm1", "stack_r2_m1", "stack_r2_1", "stack_r2_m2",
              "partial_int", "partial_slice", "partial_intarr", "partial_boolarr", "invert_affine", "invert_exp", "reshape", "embed",
              "coupling3", "coupling2c"]
FWD_ONLY_QUICK = ["maf3"]          # transform(inverse(y)) of the sequential inverse: thorough tier
COMB_THOROUGH = COMB_QUICK + ["coupling3d2"]
FWD_ONLY_THOROUGH = ["maf3", "maf2c", "maf3d0"]


def ob_roundtrip_dir(spec_name, direction):
    from .. import zoo
    from ..bij import ob_roundtrip
    spec = zoo.get(spec_name)
    out = []
    for c in (spec.x_cases() if direction == "fwd" else spec.y_cases()):
        out += ob_roundtrip(spec_name, direction, c.name)
    return out


def obligations(tier, seed):
    tasks = []
    for nm in (COMB_QUICK if tier == "quick" else COMB_THOROUGH):
        tasks.append(dict(name=nm, func="c01:ob_roundtrip_all", kwargs=dict(spec_name=nm), cost=3.0 if nm.startswith("coupling") else 1.0))
    for nm in (FWD_ONLY_QUICK if tier == "quick" else FWD_ONLY_THOROUGH):
        tasks.append(dict(name=nm + "/fwd", func="c01x:ob_roundtrip_dir", kwargs=dict(spec_name=nm, direction="fwd"), cost=6.0))
    return tasks
