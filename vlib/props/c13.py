"""C13 - malformed inputs are rejected, never silently broadcast (E2 pysym on the real wrapper/constructor code + E1 avals)."""
from __future__ import annotations

import itertools
import types

import z3

from ..core import rec
from .. import pysym
from ..pysym import Explorer, SNum, SBool, rebind, ints

META = dict(
    files=["flowjax/bijections/bijection.py", "flowjax/distributions.py", "flowjax/bijections/chain.py", "flowjax/bijections/concatenate.py",
           "flowjax/bijections/utils.py", "flowjax/bijections/jax_transforms.py", "flowjax/utils.py"],
    functions=["flowjax.bijections.bijection._unwrap_check_and_cast (real code object, re-bound)", "AbstractDistribution._vectorize/_check_shapes",
               "Chain.__init__", "Concatenate.__init__/_argcheck_shapes", "Stack.__init__", "Reshape.__check_init__", "Vmap.get_cond_shape",
               "AbstractTransformed.__check_init__", "flowjax.utils.merge_cond_shapes / check_shapes_match",
               "MRO closure: every concrete AbstractBijection subclass's four methods are instances of the wrapper"],
    trusted_base=["vlib/pysym.py (re-execution executor, z3 feasibility per branch)", "stubs: arraylike_to_array/unwrap = identity on fake arrays carrying a symbolic .shape",
                  "z3 5.1.0 (linear integer arithmetic)"],
    assumptions=["shapes are tuples of unbounded non-negative symbolic ints; rank <= 3", "Partial's index check is enumerated concretely (C boundary), not symbolic"],
    bounds=dict(quick="rank 0-3 for shape / cond_shape / x / condition, 2-3 children for constructors", thorough="same with 4 children and rank 4 for constructors"),
)


class FA:
    """fake array: only a (symbolic) shape"""

    def __init__(self, shape):
        self.shape = shape
        self.ndim = len(shape)


class FB:
    def __init__(self, shape, cond_shape):
        self.shape = shape
        self.cond_shape = cond_shape


def eqt(p, q):
    """z3 formula: tuples of SNum/int equal"""
    if p is None or q is None:
        return z3.BoolVal(p is None and q is None)
    if len(p) != len(q):
        return z3.BoolVal(False)
    if not p:
        return z3.BoolVal(True)
    return z3.And(*[pysym.lift(a) == pysym.lift(b) for a, b in zip(p, q)])


def nonneg(*tuples):
    out = []
    for t in tuples:
        if t is not None:
            out += [pysym.lift(v) >= 0 for v in t if isinstance(v, SNum)]
    return out


def _run(name, harness, assumptions=()):
    """harness(ex) -> (observed z3 Bool / python bool, expected z3 Bool, info)"""
    ex = Explorer(assumptions)
    paths = 0
    for pc, (obs, exp, info) in ex.run_all(harness):
        paths += 1
        obs = z3.BoolVal(obs) if isinstance(obs, bool) else obs
        ok, m = ex.valid(pc, obs == exp)
        if ok is not True:
            wit = {} if m is None else {str(d): str(m[d]) for d in m.decls()}
            # a path of the real (re-bound) code with a z3 model is a candidate: confirm it on the REAL classes with concrete shapes
            try:
                rok, rmsg = replay(name, wit)
            except Exception as e:  # noqa
                rok, rmsg = False, f"replay raised {type(e).__name__}: {e}"
            return rec(name, "violation" if (ok is False and rok) else "inconclusive",
                       detail=f"path {paths}: observed {obs} but specification says {z3.simplify(exp)}; witness {wit}; {info} | concrete replay: {rmsg}",
                       replay=dict(func="c13:replay", kwargs=dict(name=name, witness=wit)), queries=ex.queries, solver_s=ex.solver_s, paths=paths)
    return rec(name, "discharged", queries=ex.queries, solver_s=ex.solver_s, paths=paths, vacuity=paths > 0,
               sample=dict(paths=paths, note="every path: path-condition => (raised <=> documented incompatibility)"))


# ---------------------------------------------------------------------------------------------------
def ob_argcheck(ranks=4):
    """the real wrapper raises ValueError iff x.shape != shape or (cond_shape != None and (condition is None or condition.shape != cond_shape));
    otherwise the wrapped method receives the arguments unchanged"""
    import flowjax.bijections.bijection as bb
    deco = rebind(bb._unwrap_check_and_cast, arraylike_to_array=lambda a, err_name="input", **kw: a, unwrap=lambda b: b)
    seen = {}

    def method(bij, x, cond=None):
        seen["args"] = (bij, x, cond)
        return "called"
    wrapped = deco(method)
    out = []
    tot_paths = 0
    tot_q = 0
    tot_s = 0.0
    opts = [None] + list(range(ranks))
    for rb, rx in itertools.product(range(ranks), repeat=2):
        for rc in opts:
            for rd in opts:
                def harness(ex):
                    mk = lambda n, r: None if r is None else ints(n, r)
                    b, c, x, d = mk("b", rb), mk("c", rc), mk("x", rx), mk("d", rd)
                    bij, xa, da = FB(b, c), FA(x), (None if d is None else FA(d))
                    seen.clear()
                    try:
                        r = wrapped(bij, xa, da)
                        raised = False
                        passthrough = seen.get("args") is not None and seen["args"][1] is xa and (seen["args"][2] is da)
                    except ValueError:
                        raised = True
                        passthrough = True
                    should = z3.Not(eqt(x, b))
                    if c is not None:
                        should = z3.Or(should, z3.BoolVal(True) if d is None else z3.Not(eqt(d, c)))
                    return (raised and passthrough) if raised else (not passthrough), should, f"ranks shape={rb} cond_shape={rc} x={rx} condition={rd}"
                name = f"C13/argcheck/ranks(shape={rb},cond_shape={rc},x={rx},condition={rd})"
                r = _run(name, harness)
                tot_paths += r.get("paths", 0)
                tot_q += r["queries"]
                tot_s += r["solver_s"]
                if r["status"] != "discharged":
                    out.append(r)
    if not out:
        out.append(rec(f"C13/argcheck wrapper: raises iff documented mismatch, over all {ranks ** 2 * len(opts) ** 2} rank combinations", "discharged",
                       queries=tot_q, solver_s=tot_s, paths=tot_paths, vacuity=True,
                       sample=dict(paths=tot_paths, rank_combinations=ranks ** 2 * len(opts) ** 2)))
    return out


def _dummy_cls():
    """a trivial concrete bijection with arbitrary declared shape / cond_shape (identity map), built from the REAL AbstractBijection"""
    if "D" not in _DUMMY:
        import jax.numpy as jnp
        from flowjax.bijections.bijection import AbstractBijection

        class Dummy(AbstractBijection):
            shape: tuple
            cond_shape: tuple | None = None

            def transform(self, x, condition=None):
                return x

            def transform_and_log_det(self, x, condition=None):
                return x, jnp.zeros(())

            def inverse(self, y, condition=None):
                return y

            def inverse_and_log_det(self, y, condition=None):
                return y, jnp.zeros(())
        _DUMMY["D"] = Dummy
    return _DUMMY["D"]


_DUMMY = {}


def _shapes(rank, dims=(1, 2, 3)):
    return list(itertools.product(dims, repeat=rank))


def replay(name, witness=None):
    """concrete confirmation on the REAL flowjax classes: small concrete shapes of the obligation's ranks are enumerated, the real constructor /
    method is called and its behaviour (raises or not, declared shapes) is compared with NumPy's concatenate / stack / reshape / equality of
    tuples.  Returns the first concrete disagreement."""
    import re
    import numpy as np
    import jax.numpy as jnp
    import flowjax.bijections as fb
    import flowjax.distributions as fd
    D = _dummy_cls()
    nums = lambda s_: [None if q == "None" else int(q) for q in re.findall(r"(None|-?\d+)", s_)]

    def raises(f):
        try:
            return False, f()
        except (ValueError, IndexError, TypeError) as e:
            return True, e
    bad = []
    if "/argcheck/" in name:
        rb, rc, rx, rd = nums(name.split("ranks(")[1])
        for b in _shapes(rb, (1, 2)):
            for c in ([None] if rc is None else _shapes(rc, (1, 2))):
                for x in _shapes(rx, (1, 2)):
                    for d in ([None] if rd is None else _shapes(rd, (1, 2))):
                        bij = D(tuple(b), None if c is None else tuple(c))
                        want = (tuple(x) != tuple(b)) or (c is not None and (d is None or tuple(d) != tuple(c)))
                        for meth in ("transform", "inverse", "transform_and_log_det", "inverse_and_log_det"):
                            got, _ = raises(lambda: getattr(bij, meth)(jnp.zeros(x), None if d is None else jnp.zeros(d)))
                            if got != want:
                                return True, f"{meth} of a bijection with shape {b}, cond_shape {c} called with x{tuple(x)}, condition{None if d is None else tuple(d)}: raised={got}, documented={want}"
        return False, "the real wrapper agrees with the documented rule on the enumerated shapes"
    if "Chain.__init__" in name:
        rr = re.search(r"ranks=\((.*?)\) conds=\((.*?)\)", name)
        ranks, conds = nums(rr.group(1)), nums(rr.group(2))
        for shs in itertools.product(*[_shapes(r, (1, 2)) for r in ranks]):
            for cs in itertools.product(*[([None] if c is None else _shapes(c, (1, 2))) for c in conds]):
                kids = [D(tuple(s_), None if c is None else tuple(c)) for s_, c in zip(shs, cs)]
                nn = [tuple(c) for c in cs if c is not None]
                want = any(tuple(s_) != tuple(shs[0]) for s_ in shs) or any(c != nn[0] for c in nn)
                got, obj = raises(lambda: fb.Chain(kids))
                if got != want:
                    return True, f"Chain of children with shapes {shs}, cond shapes {cs}: raised={got}, documented={want}"
                if not got and (tuple(obj.shape) != tuple(shs[0]) or (obj.cond_shape if not nn else tuple(obj.cond_shape)) != (nn[0] if nn else None)):
                    return True, f"Chain of children with shapes {shs}, cond shapes {cs} declares {obj.shape}, {obj.cond_shape}"
        return False, "Chain constructor agrees with the documented rule on the enumerated shapes"
    if "Concatenate.__init__" in name or "Stack.__init__" in name:
        cls = fb.Concatenate if "Concatenate" in name else fb.Stack
        npf = np.concatenate if cls is fb.Concatenate else np.stack
        n = int(re.search(r"n=(\d+)", name).group(1))
        if "different ranks" in name:
            r0, other = [int(q) for q in re.search(r"child ranks (\d+) vs (\d+)", name).groups()]
            rank_sets = [[r0] * (n - 1) + [other]]
        else:
            r0 = int(re.search(r"rank=(\d+)", name).group(1))
            rank_sets = [[r0] * n]
        for ranks in rank_sets:
            for shs in itertools.product(*[_shapes(r, (1, 2)) for r in ranks]):
                lim = (len(shs[0]) + 1) if cls is fb.Stack else len(shs[0])
                for ax in range(-lim, lim):
                    wr, wv = raises(lambda: npf([np.zeros(s_) for s_ in shs], axis=ax))
                    got, obj = raises(lambda: cls([D(tuple(s_)) for s_ in shs], axis=ax))
                    if got != wr:
                        return True, f"{cls.__name__}(children {shs}, axis={ax}): raised={got} but numpy.{npf.__name__} raises={wr}"
                    if not got and tuple(obj.shape) != tuple(wv.shape):
                        return True, f"{cls.__name__}(children {shs}, axis={ax}) declares {tuple(obj.shape)} but numpy gives {tuple(wv.shape)}"
        return False, f"{cls.__name__} constructor agrees with numpy on the enumerated shapes"
    if "Reshape" in name:
        for child in [(), (1,), (3,), (2, 3), (1, 1)]:
            for cchild in [None, (), (2,), (1,), (2, 2)]:
                for tgt in [None, (), (1,), (3,), (6,), (3, 2), (1, 1)]:
                    for ctgt in [None, (), (2,), (4,), (1,)]:
                        inner = D(child, cchild)
                        want_shape = child if tgt is None else tgt
                        want_cond = cchild if ctgt is None else ctgt
                        want = (int(np.prod(want_shape)) != int(np.prod(child))) or (cchild is None and ctgt is not None) or \
                            (cchild is not None and int(np.prod(want_cond)) != int(np.prod(cchild)))
                        got, obj = raises(lambda: fb.Reshape(inner, tgt, ctgt))
                        if got != want:
                            return True, f"Reshape(child shape {child} cond {cchild}, shape={tgt}, cond_shape={ctgt}): raised={got}, documented={want}"
                        if not got and (tuple(obj.shape) != tuple(want_shape) or (None if obj.cond_shape is None else tuple(obj.cond_shape)) != want_cond):
                            return True, f"Reshape(child shape {child} cond {cchild}, shape={tgt}, cond_shape={ctgt}) declares {obj.shape}, {obj.cond_shape}"
        return False, "Reshape agrees with the documented rule on the enumerated shapes"
    if "Vmap.get_cond_shape" in name:
        for c in [None, (), (2,), (2, 3), (1, 2, 3)]:
            rc = 0 if c is None else len(c)
            for ax in [None] + list(range(-(rc + 1), rc + 1)):
                got, obj = raises(lambda: fb.Vmap(D((), c), axis_size=4, in_axes_condition=ax))
                if got:
                    return True, f"Vmap(cond_shape {c}, in_axes_condition={ax}) raised {obj}"
                want = c if (c is None or ax is None) else tuple(np.stack([np.zeros(c)] * 4, axis=ax).shape)
                if (None if obj.cond_shape is None else tuple(obj.cond_shape)) != want:
                    return True, f"Vmap(cond_shape {c}, axis_size=4, in_axes_condition={ax}) declares cond_shape {obj.cond_shape} but stacking gives {want}"
        return False, "Vmap.cond_shape agrees with numpy.stack on the enumerated shapes"
    if "Transformed.__check_init__" in name:
        for c1 in [None, (), (2,), (3,)]:
            for c2 in [None, (), (2,), (3,)]:
                class _B(fd.AbstractDistribution):
                    shape: tuple = ()
                    cond_shape: tuple | None = None

                    def _log_prob(self, x, condition=None):
                        return jnp.zeros(())

                    def _sample(self, key, condition=None):
                        return jnp.zeros(())
                want = c1 is not None and c2 is not None and c1 != c2
                got, obj = raises(lambda: fd.Transformed(_B((), c1), D((), c2)))
                if got != want:
                    return True, f"Transformed(base cond_shape {c1}, bijection cond_shape {c2}): raised={got}, documented={want}"
        return False, "Transformed agrees with the documented rule"
    if "_check_shapes" in name:
        d0 = fd.Normal(jnp.zeros((2, 3)), jnp.ones((2, 3)))
        for x in [(2, 3), (3,), (4, 2, 3), (2, 2), (3, 2), (1, 3), ()]:
            want = x[-2:] != (2, 3) if len(x) >= 2 else True
            got, _ = raises(lambda: d0.log_prob(jnp.zeros(x)))
            if got != want:
                return True, f"Normal with shape (2, 3): log_prob(x{x}) raised={got}, documented={want}"
        return False, "distribution shape check agrees with the documented rule"
    return False, "no concrete replay for this obligation family"


def ob_mro_closure():
    """every concrete subclass's four methods resolve (through the MRO) to an instance of the checking wrapper"""
    import flowjax.bijections as fbm
    import flowjax.bijections.bijection as bb
    import flowjax.bijections.planar, flowjax.bijections.block_autoregressive_network  # noqa
    probe = bb._unwrap_check_and_cast(lambda self, x, condition=None: x)
    code = probe.__code__
    bad = []
    n = 0

    def subs(c):
        for s in c.__subclasses__():
            yield s
            yield from subs(s)
    classes = sorted({c for c in subs(bb.AbstractBijection) if c.__module__.startswith("flowjax")}, key=lambda c: c.__qualname__)
    for c in classes:
        for m in ("transform", "transform_and_log_det", "inverse", "inverse_and_log_det"):
            f = getattr(c, m, None)
            if f is None or getattr(f, "__isabstractmethod__", False):
                continue
            n += 1
            if getattr(f, "__code__", None) is not code:
                bad.append(f"{c.__qualname__}.{m}")
    name = f"C13/mro-closure: {n} methods of {len(classes)} classes are wrapped"
    if bad:
        return [rec(name, "violation", detail="unchecked methods: " + ", ".join(bad), nontrivial=False,
                    replay=dict(func="c13:replay_mro", kwargs=dict(methods=bad)))]
    return [rec(name, "discharged", nontrivial=False, sample=dict(classes=[c.__qualname__ for c in classes][:40]))]


def replay_mro(methods):
    import flowjax.bijections.bijection as bb
    import importlib
    code = bb._unwrap_check_and_cast(lambda self, x, condition=None: x).__code__
    import flowjax.bijections as fbm
    still = []
    for q in methods:
        cn, m = q.rsplit(".", 1)
        for mod in list(__import__("sys").modules.values()):
            c = getattr(mod, cn, None) if mod and getattr(mod, "__name__", "").startswith("flowjax") else None
            if isinstance(c, type):
                if getattr(getattr(c, m), "__code__", None) is not code:
                    still.append(q)
                break
    return bool(still), f"unchecked: {still}"


# ---------------------------------------------------------------------------------------------------
def _stub_self(cls):
    """plain object carrying the real class's plain-python methods (so `self._helper(...)` runs the real code)"""
    T = type("Stub" + cls.__name__, (), {k: v for k, v in vars(cls).items() if isinstance(v, types.FunctionType) and k != "__init__"})
    return T()


def _children(n, ranks, conds):
    """n fake bijections with symbolic shapes of the given ranks and cond shapes of the given ranks (None = unconditional)"""
    out = []
    for i in range(n):
        out.append(FB(ints(f"s{i}_", ranks[i]), None if conds[i] is None else ints(f"c{i}_", conds[i])))
    return out


def spec_merge(conds):
    """(raises?, merged) reference for merge_cond_shapes"""
    nn = [c for c in conds if c is not None]
    if not nn:
        return z3.BoolVal(False), None
    raises = z3.Or(*[z3.Not(eqt(c, nn[0])) for c in nn]) if len(nn) > 1 else z3.BoolVal(False)
    return raises, nn[0]


def ob_constructors(max_children=2, max_rank=2):
    import flowjax.bijections as fbm
    from flowjax.bijections.chain import Chain
    from flowjax.bijections.concatenate import Concatenate, Stack
    from flowjax.bijections.utils import Reshape
    from flowjax.bijections.jax_transforms import Vmap
    from flowjax.distributions import AbstractTransformed
    out = []
    rk = list(range(max_rank + 1))
    condopts = [None, 0, 1]

    # ---- Chain ----
    tq = tp = 0
    ts = 0.0
    fails = []
    for n in range(1, max_children + 1):
        for ranks in itertools.product(rk, repeat=n):
            for conds in itertools.product(condopts, repeat=n):
                def harness(ex):
                    ch = _children(n, ranks, conds)
                    ns = types.SimpleNamespace()
                    try:
                        Chain.__init__(ns, ch)
                        raised = False
                    except ValueError:
                        raised = True
                    mism = z3.Or(*[z3.Not(eqt(c.shape, ch[0].shape)) for c in ch]) if n > 1 else z3.BoolVal(False)
                    mr, merged = spec_merge([c.cond_shape for c in ch])
                    should = z3.Or(mism, mr)
                    if raised:
                        return True, should, f"Chain ranks={ranks} conds={conds}"
                    okres = z3.And(eqt(ns.shape, ch[0].shape), eqt(ns.cond_shape, merged) if merged is not None else z3.BoolVal(ns.cond_shape is None))
                    return z3.Not(okres), should, f"Chain ranks={ranks} conds={conds}"
                r = _run(f"C13/Chain.__init__ ranks={ranks} conds={conds}", harness, [])
                tq += r["queries"]; ts += r["solver_s"]; tp += r.get("paths", 0)
                if r["status"] != "discharged":
                    fails.append(r)
    out += fails or [rec("C13/Chain.__init__: raises iff shapes differ or non-None cond shapes differ; declares shape/cond_shape of the children", "discharged",
                         queries=tq, solver_s=ts, paths=tp, vacuity=True)]

    # ---- Concatenate / Stack with symbolic axis ----
    for cls, label in ((Concatenate, "Concatenate"), (Stack, "Stack")):
        tq = tp = 0
        ts = 0.0
        fails = []
        for n in (2, 3)[: max(1, max_children - 1)]:
            # children of DIFFERENT ranks are a documented mismatch too (np.concatenate / np.stack reject them)
            for r_, other in [(r0, o) for r0 in range(1, max_rank + 2) for o in (r0 - 1, r0 + 1) if o >= 0]:
                def harness_mixed(ex, r_=r_, other=other):
                    ch = [FB(ints("s0_", r_), None)] + [FB(ints(f"s{i}_", other if i == n - 1 else r_), None) for i in range(1, n)]
                    ax = SNum(z3.Int("axis"))
                    ns = _stub_self(cls)
                    try:
                        cls.__init__(ns, ch, ax)
                        raised = False
                    except (ValueError, IndexError):
                        raised = True
                    # for an axis valid for the first child every rank mismatch must be rejected at construction
                    return raised, z3.BoolVal(True), f"{label} n={n} ranks {r_} and {other} (last child)"
                lim = r_ + 1 if cls is Stack else r_
                rr = _run(f"C13/{label}.__init__ n={n} child ranks {r_} vs {other}: different ranks are rejected", harness_mixed, [z3.Int("axis") >= -lim, z3.Int("axis") < lim])
                tq += rr["queries"]; ts += rr["solver_s"]; tp += rr.get("paths", 0)
                if rr["status"] != "discharged":
                    fails.append(rr)
            for r_ in range(0 if cls is Stack else 1, max_rank + 2):
                def harness(ex):
                    ch = [FB(ints(f"s{i}_", r_), None) for i in range(n)]
                    ax = SNum(z3.Int("axis"))
                    ns = _stub_self(cls)
                    outrank = r_ + 1 if cls is Stack else r_
                    try:
                        cls.__init__(ns, ch, ax)
                        raised = False
                    except (ValueError, IndexError):
                        raised = True
                    a = pysym.lift(ax)
                    inrange = z3.And(a >= -outrank, a < outrank)
                    if cls is Stack:
                        mism = z3.Or(*[z3.Not(eqt(c.shape, ch[0].shape)) for c in ch])
                        should = mism      # (an out-of-range axis fails later, at call time, like jnp.stack)
                        if raised:
                            return True, z3.Or(should, z3.Not(inrange)), f"Stack n={n} rank={r_}"
                        # reference: np.stack output shape
                        alts = []
                        for k in range(outrank):
                            ref = ch[0].shape[:k] + (n,) + ch[0].shape[k:]
                            alts.append(z3.And(z3.Or(a == k, a == k - outrank), eqt(ns.shape, ref)))
                        return z3.Not(z3.Or(z3.Not(inrange), *alts)), should, f"Stack n={n} rank={r_} declared={ns.shape}"
                    # Concatenate
                    alts_m = []
                    alts_s = []
                    for k in range(outrank):
                        sel = z3.Or(a == k, a == k - outrank)
                        mm = z3.Or(*[z3.Not(eqt(c.shape[:k] + c.shape[k + 1:], ch[0].shape[:k] + ch[0].shape[k + 1:])) for c in ch])
                        alts_m.append(z3.And(sel, mm))
                        if not raised:
                            tot = ch[0].shape[k]
                            for c in ch[1:]:
                                tot = tot + c.shape[k]
                            alts_s.append(z3.And(sel, eqt(ns.shape, ch[0].shape[:k] + (tot,) + ch[0].shape[k + 1:])))
                    should = z3.Or(z3.Not(inrange), *alts_m)
                    if raised:
                        return True, should, f"Concatenate n={n} rank={r_}"
                    return z3.Not(z3.Or(*alts_s)), should, f"Concatenate n={n} rank={r_} declared={ns.shape}"
                rr = _run(f"C13/{label}.__init__ n={n} rank={r_} symbolic axis", harness, [z3.Int("axis") >= -6, z3.Int("axis") <= 6])
                tq += rr["queries"]; ts += rr["solver_s"]; tp += rr.get("paths", 0)
                if rr["status"] != "discharged":
                    fails.append(rr)
        out += fails or [rec(f"C13/{label}.__init__: raises iff documented mismatch; declared shape == numpy's for every axis in [-rank, rank)", "discharged",
                             queries=tq, solver_s=ts, paths=tp, vacuity=True)]

    # ---- Reshape.__check_init__ ----
    tq = tp = 0
    ts = 0.0
    fails = []
    for r1, r2 in itertools.product(rk, repeat=2):
        for c1, c2 in itertools.product([None, 0, 1, 2], repeat=2):
            def harness(ex):
                inner = FB(ints("s", r1), None if c1 is None else ints("c", c1))
                ns = types.SimpleNamespace(bijection=inner, shape=ints("t", r2), cond_shape=(inner.cond_shape if c2 is None else ints("d", c2)))
                try:
                    Reshape.__check_init__(ns)
                    raised = False
                except ValueError:
                    raised = True

                def prod(t):
                    p = z3.IntVal(1)
                    for v in t:
                        p = p * pysym.lift(v)
                    return p
                should = prod(ns.shape) != prod(inner.shape)
                if inner.cond_shape is None and ns.cond_shape is not None:
                    should = z3.BoolVal(True)
                elif inner.cond_shape is not None:
                    should = z3.Or(should, prod(ns.cond_shape) != prod(inner.cond_shape))
                return raised, should, f"Reshape ranks {r1}->{r2} cond {c1}->{c2}"
            rr = _run(f"C13/Reshape.__check_init__ ranks {r1}->{r2} cond {c1}->{c2}", harness, [])
            tq += rr["queries"]; ts += rr["solver_s"]; tp += rr.get("paths", 0)
            if rr["status"] != "discharged":
                fails.append(rr)
    out += fails or [rec("C13/Reshape.__check_init__: raises iff element counts differ (shape or cond_shape) or an unconditional bijection gets a cond_shape", "discharged",
                         queries=tq, solver_s=ts, paths=tp, vacuity=True)]

    # ---- Reshape.__init__ + __check_init__ through the REAL constructor code: explicit targets (also the rank-0 target `()`), or None ----
    tq = tp = 0
    ts = 0.0
    fails = []
    for r1 in rk:
        for c1 in (None, 0, 1):
            for tgt in (None, 0, 1, 2):
                for ctgt in ((None,) if c1 is None else (None, 0, 1)):
                    def harness(ex, r1=r1, c1=c1, tgt=tgt, ctgt=ctgt):
                        inner = FB(ints("s", r1), None if c1 is None else ints("c", c1))
                        shape = None if tgt is None else ints("t", tgt)
                        cshape = None if ctgt is None else ints("d", ctgt)
                        ns = types.SimpleNamespace()
                        try:
                            Reshape.__init__(ns, inner, shape, cshape)
                            Reshape.__check_init__(ns)
                            raised = False
                        except ValueError:
                            raised = True

                        def prod(t):
                            p = z3.IntVal(1)
                            for v in t:
                                p = p * pysym.lift(v)
                            return p
                        want_shape = inner.shape if shape is None else shape
                        want_cond = inner.cond_shape if cshape is None else cshape
                        should = prod(want_shape) != prod(inner.shape)
                        if inner.cond_shape is not None:
                            should = z3.Or(should, prod(want_cond) != prod(inner.cond_shape))
                        if raised:
                            return True, should, f"Reshape child rank {r1}, target {tgt}, cond {c1}->{ctgt}"
                        declared_ok = z3.And(eqt(ns.shape, want_shape), eqt(ns.cond_shape, want_cond) if want_cond is not None else z3.BoolVal(ns.cond_shape is None))
                        # not raised: the documented mismatch must be absent AND the declared shapes must be the requested ones
                        return z3.Not(declared_ok), should, f"Reshape child rank {r1}, target {tgt}, cond {c1}->{ctgt}: declared {ns.shape}, {ns.cond_shape}"
                    rr = _run(f"C13/Reshape(child rank {r1}, shape target rank {tgt}, cond rank {c1} -> target {ctgt})", harness, [])
                    tq += rr["queries"]; ts += rr["solver_s"]; tp += rr.get("paths", 0)
                    if rr["status"] != "discharged":
                        fails.append(rr)
    out += fails or [rec("C13/Reshape.__init__: declares exactly the requested shape / cond_shape (an explicit rank-0 target `()` included, None = unchanged) and raises iff the element counts differ",
                         "discharged", queries=tq, solver_s=ts, paths=tp, vacuity=True)]

    # ---- Vmap.get_cond_shape with symbolic axis ----
    tq = tp = 0
    ts = 0.0
    fails = []
    for rc in (None, 0, 1, 2, 3):
        def harness(ex):
            inner = FB((), None if rc is None else ints("c", rc))
            ns = types.SimpleNamespace(bijection=inner, axis_size=SNum(z3.Int("n")))
            ax = SNum(z3.Int("axis"))
            try:
                got = Vmap.get_cond_shape(ns, ax)
                raised = False
            except IndexError:
                raised = True
            a = pysym.lift(ax)
            if rc is None:
                return (got is not None) if not raised else True, z3.BoolVal(False), "unconditional inner"
            inrange = z3.And(a >= -(rc + 1), a < rc + 1)
            if raised:
                return True, z3.Not(inrange), f"Vmap cond rank {rc}"
            alts = [z3.And(z3.Or(a == k, a == k - (rc + 1)), eqt(got, inner.cond_shape[:k] + (ns.axis_size,) + inner.cond_shape[k:])) for k in range(rc + 1)]
            return z3.Not(z3.Or(*alts)), z3.Not(inrange), f"Vmap cond rank {rc} declared={got}"
        rr = _run(f"C13/Vmap.get_cond_shape rank={rc} symbolic in_axes_condition", harness, [z3.Int("axis") >= -6, z3.Int("axis") <= 6])
        tq += rr["queries"]; ts += rr["solver_s"]; tp += rr.get("paths", 0)
        if rr["status"] != "discharged":
            fails.append(rr)
    out += fails or [rec("C13/Vmap.get_cond_shape: declared cond_shape inserts axis_size at the (normalised) mapped axis, every axis in [-(r+1), r+1)", "discharged",
                         queries=tq, solver_s=ts, paths=tp, vacuity=True)]

    # ---- Transformed.__check_init__ ----
    tq = tp = 0
    ts = 0.0
    fails = []
    for c1, c2 in itertools.product([None, 0, 1, 2], repeat=2):
        def harness(ex):
            ns = types.SimpleNamespace(base_dist=FB((), None if c1 is None else ints("c", c1)), bijection=FB((), None if c2 is None else ints("d", c2)))
            try:
                AbstractTransformed.__check_init__(ns)
                raised = False
            except ValueError:
                raised = True
            should = z3.BoolVal(False) if (c1 is None or c2 is None) else z3.Not(eqt(ns.base_dist.cond_shape, ns.bijection.cond_shape))
            return raised, should, f"Transformed cond ranks {c1},{c2}"
        rr = _run(f"C13/Transformed.__check_init__ cond ranks {c1},{c2}", harness, [])
        tq += rr["queries"]; ts += rr["solver_s"]; tp += rr.get("paths", 0)
        if rr["status"] != "discharged":
            fails.append(rr)
    out += fails or [rec("C13/AbstractTransformed.__check_init__: raises iff both conditional with different cond_shape", "discharged",
                         queries=tq, solver_s=ts, paths=tp, vacuity=True)]
    return out


def ob_dist_check_shapes(ranks=3):
    """the distribution vectoriser's per-element check raises iff trailing dims differ (real _vectorize closure, jnp.vectorize stubbed to identity)"""
    import flowjax.distributions as fd
    captured = {}

    class _jnp:
        @staticmethod
        def vectorize(f, signature=None, excluded=frozenset()):
            captured["sig"] = signature
            captured["ex"] = excluded
            return f
    vec = rebind(fd.AbstractDistribution._vectorize, jnp=_jnp)
    out = []
    tq = tp = 0
    ts = 0.0
    fails = []
    for rs, rx in itertools.product(range(ranks + 1), repeat=2):
        for rc in [None] + list(range(ranks)):
            for rd in [None] + list(range(ranks)):
                if (rc is None) != (rd is None):
                    continue

                def harness(ex):
                    shape = ints("s", rs)
                    cshape = None if rc is None else ints("c", rc)
                    dist = types.SimpleNamespace(shape=shape, cond_shape=cshape)

                    def _log_prob(x, condition=None):
                        return "called"
                    w = vec(dist, _log_prob)
                    x = FA(ints("x", rx))
                    d = None if rd is None else FA(ints("d", rd))
                    try:
                        w(x, d)
                        raised = False
                    except ValueError:
                        raised = True
                    should = z3.Not(eqt(x.shape, shape))
                    if cshape is not None:
                        should = z3.Or(should, z3.Not(eqt(d.shape, cshape)))
                    exok = (captured["ex"] == (frozenset([1]) if cshape is None else frozenset()))
                    return raised if exok else True, should if exok else z3.BoolVal(False), f"dist ranks shape={rs} x={rx} cond={rc},{rd} excluded={captured['ex']}"
                rr = _run(f"C13/_check_shapes shape={rs} x={rx} cond_shape={rc} cond={rd}", harness, [])
                tq += rr["queries"]; ts += rr["solver_s"]; tp += rr.get("paths", 0)
                if rr["status"] != "discharged":
                    fails.append(rr)
    out += fails or [rec("C13/distribution _check_shapes: raises iff x / condition trailing shape differs; condition excluded iff unconditional", "discharged",
                         queries=tq, solver_s=ts, paths=tp, vacuity=True)]
    return out


def ob_avals(names):
    """successful calls return arrays of exactly the declared shape and a scalar log-determinant (avals of the traced real methods)"""
    from .. import zoo
    from ..bij import traced
    out = []
    bad = []
    n = 0
    for nm in names:
        spec = zoo.get(nm)
        for m in ("transform", "inverse", "transform_and_log_det", "inverse_and_log_det"):
            if not spec.has_inverse and "inverse" in m:
                continue
            j = traced(spec, m)
            n += 1
            av = [tuple(a.shape) for a in j.out_avals]
            want = [tuple(spec.shape)] + ([()] if "log_det" in m else [])
            if av != want:
                bad.append(f"{spec.name}.{m}: avals {av} declared {want}")
    name = f"C13/avals: {n} traced methods return the declared shape and a scalar log-det"
    if bad:
        return [rec(name, "violation", detail="; ".join(bad), nontrivial=False, replay=dict(func="c13:replay", kwargs=dict(name=name, witness={})))]
    return [rec(name, "discharged", nontrivial=False)]


def ob_partial_enum():
    """Partial.__check_init__ (C boundary: jnp.zeros(shape)[idxs]) enumerated over a small lattice of shapes / index kinds"""
    import jax.numpy as jnp
    import numpy as np
    import flowjax.bijections as fb
    n = 0
    bad = []
    idxs = [0, 1, -1, slice(0, 2), slice(1, None), jnp.array([0, 2]), jnp.array([True, False, True]), (0, 1), (slice(None), 0)]
    for shape in [(3,), (3, 2), (2, 3)]:
        for idx in idxs:
            try:
                sub = np.zeros(shape)[np.asarray(idx) if hasattr(idx, "shape") else idx].shape
            except Exception:
                continue
            for bshape in [(), (1,), (2,), (3,), (2, 2), (3, 2), (2, 3)]:
                n += 1
                inner = fb.Identity(bshape)
                try:
                    fb.Partial(inner, idx, shape)
                    raised = False
                except ValueError:
                    raised = True
                if raised != (tuple(sub) != tuple(bshape)):
                    bad.append(f"shape={shape} idx={idx} inner={bshape} raised={raised} subset={sub}")
    name = f"C13/Partial.__check_init__: {n} (shape, index, inner shape) combinations enumerated"
    if bad:
        return [rec(name, "violation", detail="; ".join(bad[:5]), nontrivial=False, replay=dict(func="c13:replay", kwargs=dict(name=name, witness={})))]
    return [rec(name, "discharged", nontrivial=False, detail="enumeration (not symbolic): index check crosses into numpy/jax")]


def obligations(tier, seed):
    from . import c01, c01x
    thorough = tier != "quick"
    names = c01.QUICK + c01x.COMB_QUICK + c01x.FWD_ONLY_QUICK
    return [
        dict(name="argcheck", func="c13:ob_argcheck", kwargs=dict(ranks=4), cost=3),
        dict(name="mro", func="c13:ob_mro_closure", kwargs={}, cost=1),
        dict(name="constructors", func="c13:ob_constructors", kwargs=dict(max_children=3 if thorough else 2, max_rank=3 if thorough else 2), cost=5),
        dict(name="dist_check_shapes", func="c13:ob_dist_check_shapes", kwargs=dict(ranks=3), cost=3),
        dict(name="avals-a", func="c13:ob_avals", kwargs=dict(names=names[: len(names) // 2]), cost=4),
        dict(name="avals-b", func="c13:ob_avals", kwargs=dict(names=names[len(names) // 2:]), cost=4),
        dict(name="partial", func="c13:ob_partial_enum", kwargs={}, cost=1),
    ]
