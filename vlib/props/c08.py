"""C08 - combinators mean what their definitions say, for every shape and axis.

E1 (values): for a bijection expression tree the four methods of the REAL combinator are traced (all float parameters of
all leaves symbolic) and proved equal, element by element, to a reference interpreter that implements the combinators'
*definitions* over the children's own (separately traced) methods with NumPy semantics on object arrays
(np.split / np.take / np.stack / np.concatenate / basic+advanced NumPy indexing).  Declared shape / cond_shape are compared
with NumPy's answer on dummy arrays, and the trace at exactly that shape shows the methods accept and return it.
E2 (shape algebra for unbounded dimensions and a SYMBOLIC axis): the real constructors on symbolic shapes (shared with C13).
"""
from __future__ import annotations

import itertools
from fractions import Fraction

import numpy as np
import z3

from ..core import rec

META = dict(
    files=["flowjax/bijections/chain.py", "flowjax/bijections/jax_transforms.py", "flowjax/bijections/concatenate.py", "flowjax/bijections/utils.py",
           "flowjax/distributions.py", "flowjax/utils.py"],
    functions=["Chain / Scan / Vmap / Concatenate / Stack / Partial / Invert / Reshape / EmbedCondition: transform, inverse, transform_and_log_det, inverse_and_log_det, shape, cond_shape",
               "Chain.merge_chains / __getitem__ (int, slice)", "AbstractTransformed.merge_transforms",
               "Stack.__init__ / Concatenate.__init__ / Vmap.get_cond_shape / Reshape.__check_init__ / Chain.__init__ on symbolic shapes and a symbolic axis (pysym)"],
    trusted_base=["vlib/jx.py (jaxpr -> z3 terms)", "NumPy split/take/stack/concatenate/indexing on object arrays as the reference semantics", "z3 5.1.0",
                  "vlib/pysym.py for the constructors' shape algebra"],
    assumptions=["floats as exact reals", "leaf parameters unwrapped under their invariant (scale != 0); wrappers are C11/C12's subject",
                 "arbitrary nesting follows by induction on depth from the per-combinator equalities (each combinator is proved relative to its children's OWN methods); "
                 "depth <= 3 trees are additionally checked directly"],
    bounds=dict(quick="ranks 1-3, every axis in [-ndim, ndim), 2-3 children of mixed kinds (Affine, Loc, Exp, Permute, conditional AdditiveCondition), depth <= 2, all Partial index kinds",
                thorough="adds depth-3 generated trees (seeded sample of the grammar), rank-3 Stack/Concatenate with 3 children, Vmap over conditional children at every condition axis"),
    outside=["leaf kinds other than those listed as children (their own semantics are C01/C02/C07)", "floating-point rounding"],
)

# -----------------------------------------------------------------------------------------------------------------
# tree descriptions (constructor arguments only) -> real flowjax objects
# -----------------------------------------------------------------------------------------------------------------
COND = (2,)


def _np_index(spec):
    k = spec[0]
    if k == "int":
        return spec[1]
    if k == "slice":
        return slice(spec[1], spec[2], spec[3])
    if k == "intarr":
        return np.asarray(spec[1], dtype=int)
    if k == "boolarr":
        return np.asarray(spec[1], dtype=bool)
    if k == "tuple":
        return tuple(_np_index(s) for s in spec[1])
    if k == "ellipsis":
        return Ellipsis
    raise ValueError(k)


def _jnp_index(spec):
    import jax.numpy as jnp
    k = spec[0]
    if k in ("intarr", "boolarr"):
        return jnp.asarray(_np_index(spec))
    if k == "tuple":
        return tuple(_jnp_index(s) for s in spec[1])
    return _np_index(spec)


def build(t, key):
    """the REAL flowjax object for a tree description"""
    import jax.numpy as jnp
    import jax.random as jr
    import equinox as eqx
    import flowjax.bijections as fb
    k = t[0]
    if k == "affine":
        k1, k2 = jr.split(key)
        return fb.Affine(jr.normal(k1, t[1]), 0.5 + jr.uniform(k2, t[1]))
    if k == "loc":
        return fb.Loc(jr.normal(key, t[1]))
    if k == "scale":
        return fb.Scale(0.5 + jr.uniform(key, t[1]))
    if k == "exp":
        return fb.Exp(t[1])
    if k == "perm":
        return fb.Permute(jnp.asarray(np.asarray(t[2]).reshape(t[1])))
    if k == "flip":
        return fb.Flip(t[1])
    if k == "addc":
        return fb.AdditiveCondition(_CondNet(jr.normal(key, tuple(t[1]) + COND)), tuple(t[1]), COND)
    if k == "chain":
        return fb.Chain([build(c, kk) for c, kk in zip(t[1], jr.split(key, len(t[1])))])
    if k == "invert":
        return fb.Invert(build(t[1], key))
    if k == "concat":
        return fb.Concatenate([build(c, kk) for c, kk in zip(t[1], jr.split(key, len(t[1])))], axis=t[2])
    if k == "stack":
        return fb.Stack([build(c, kk) for c, kk in zip(t[1], jr.split(key, len(t[1])))], axis=t[2])
    if k == "partial":
        return fb.Partial(build(t[1], key), _jnp_index(t[2]), tuple(t[3]))
    if k == "reshape":
        return fb.Reshape(build(t[1], key), None if t[2] is None else tuple(t[2]), None if t[3] is None else tuple(t[3]))
    if k == "embed":
        k1, k2 = jr.split(key)
        return fb.EmbedCondition(build(t[1], k1), _CondNet(jr.normal(k2, COND + tuple(t[2]))), tuple(t[2]))
    if k == "vmap_b":
        return fb.Vmap(build(t[1], key), axis_size=t[2], in_axes_condition=t[3])
    if k == "vmap_m":
        stacked = eqx.filter_vmap(lambda kk: build(t[1], kk))(jr.split(key, t[2]))
        return fb.Vmap(stacked, in_axes=eqx.if_array(0), in_axes_condition=t[3])
    if k == "scan":
        stacked = eqx.filter_vmap(lambda kk: build(t[1], kk))(jr.split(key, t[2]))
        return fb.Scan(stacked)
    raise ValueError(k)


_CN = {}


def _condnet_cls():
    if "c" not in _CN:
        import equinox as eqx
        import jax.numpy as jnp

        class CondNet(eqx.Module):
            W: object

            def __call__(self, c):
                return jnp.tensordot(self.W, c, axes=c.ndim)
        _CN["c"] = CondNet
    return _CN["c"]


def _CondNet(W):
    return _condnet_cls()(W)


# -----------------------------------------------------------------------------------------------------------------
# reference: shapes (NumPy on dummy arrays; uses only the description)
# -----------------------------------------------------------------------------------------------------------------
LEAFK = ("affine", "loc", "scale", "exp", "perm", "flip", "addc")


def ref_shape(t):
    k = t[0]
    if k in LEAFK:
        return tuple(t[1])
    if k == "chain":
        s = [ref_shape(c) for c in t[1]]
        assert all(q == s[0] for q in s), "invalid tree"
        return s[0]
    if k in ("invert", "embed", "scan"):
        return ref_shape(t[1])
    if k == "concat":
        return np.concatenate([np.zeros(ref_shape(c)) for c in t[1]], axis=t[2]).shape
    if k == "stack":
        return np.stack([np.zeros(ref_shape(c)) for c in t[1]], axis=t[2]).shape
    if k == "partial":
        assert np.zeros(t[3])[_np_index(t[2])].shape == ref_shape(t[1]), "invalid tree"
        return tuple(t[3])
    if k == "reshape":
        return ref_shape(t[1]) if t[2] is None else tuple(t[2])
    if k in ("vmap_b", "vmap_m"):
        return (t[2],) + tuple(ref_shape(t[1]))
    raise ValueError(k)


def ref_cond(t):
    k = t[0]
    if k == "addc":
        return COND
    if k in LEAFK:
        return None
    if k in ("chain", "concat", "stack"):
        cs = [c for c in (ref_cond(q) for q in t[1]) if c is not None]
        assert all(c == cs[0] for c in cs), "invalid tree"
        return cs[0] if cs else None
    if k in ("invert", "partial", "scan"):
        return ref_cond(t[1])
    if k == "embed":
        return tuple(t[2])
    if k == "reshape":
        return ref_cond(t[1]) if t[3] is None else tuple(t[3])
    if k in ("vmap_b", "vmap_m"):
        c = ref_cond(t[1])
        if c is None or t[3] is None:
            return c
        return np.stack([np.zeros(c)] * t[2], axis=t[3]).shape
    raise ValueError(k)


# -----------------------------------------------------------------------------------------------------------------
# reference: values.  `SM` = (concrete unwrapped module, aligned list of symbolic/concrete float leaves)
# -----------------------------------------------------------------------------------------------------------------
class SM:
    def __init__(self, mod, vals):
        from ..sym import leaves_of
        self.mod = mod
        self.leaves, self.mk, self.paths = leaves_of(mod)
        assert len(self.leaves) == len(vals), (len(self.leaves), len(vals))
        self.vals = list(vals)

    def child(self, sub):
        from ..sym import leaves_of
        ls, _, _ = leaves_of(sub)
        ids = [id(l) for l in self.leaves]
        return SM(sub, [self.vals[ids.index(id(l))] for l in ls])

    def slice(self, i):
        """slice i of a module constructed under filter_vmap (every array leaf has a leading axis)"""
        import jax
        import equinox as eqx
        arrs, static = eqx.partition(self.mod, eqx.is_array)
        sub = eqx.combine(jax.tree_util.tree_map(lambda l: l[i], arrs), static)
        vals = []
        for v in self.vals:
            e = v[i]
            if not isinstance(e, np.ndarray):
                a = np.empty((), dtype=object if isinstance(v, np.ndarray) and v.dtype == object else float)
                a[()] = e
                e = a
            vals.append(e)
        return SM(sub, vals)


def _osum(a, b):
    from .. import jx
    if isinstance(a, (float, np.floating)) or isinstance(b, (float, np.floating)):
        return a + b
    return jx.add(a, b)


def ref_eval(t, sm, fwd, x, c, ev):
    """(y, log_det) of the bijection described by `t` (module sm) in direction fwd/inverse, by the combinators' definitions.
    `ev(sm_leaf, fwd, x, c)` evaluates a LEAF's own *_and_log_det method; `ev.net(sm_net, c)` a conditioner callable."""
    k = t[0]
    m = sm.mod
    if k in LEAFK:
        return ev(sm, fwd, x, c if k == "addc" else None)
    if k == "chain":
        order = list(range(len(t[1])))
        if not fwd:
            order.reverse()
        ld = Fraction(0) if ev.symbolic else 0.0
        for i in order:
            x, l = ref_eval(t[1][i], sm.child(m.bijections[i]), fwd, x, c, ev)
            ld = _osum(ld, l)
        return x, ld
    if k == "invert":
        return ref_eval(t[1], sm.child(m.bijection), not fwd, x, c, ev)
    if k == "concat":
        ax = t[2]
        sizes = [ref_shape(q)[ax] for q in t[1]]
        parts = np.split(x, np.cumsum(sizes)[:-1], axis=ax)
        ys, ld = [], (Fraction(0) if ev.symbolic else 0.0)
        for i, (q, p) in enumerate(zip(t[1], parts)):
            y, l = ref_eval(q, sm.child(m.bijections[i]), fwd, p, c, ev)
            ys.append(y)
            ld = _osum(ld, l)
        return np.concatenate(ys, axis=ax), ld
    if k == "stack":
        ax = t[2]
        ys, ld = [], (Fraction(0) if ev.symbolic else 0.0)
        for i, q in enumerate(t[1]):
            y, l = ref_eval(q, sm.child(m.bijections[i]), fwd, _arr(np.take(x, i, axis=ax), x), c, ev)
            ys.append(y)
            ld = _osum(ld, l)
        return np.stack(ys, axis=ax), ld
    if k == "partial":
        idx = _np_index(t[2])
        sub = _arr(x[idx], x)
        ysub, ld = ref_eval(t[1], sm.child(m.bijection), fwd, sub, c, ev)
        y = x.copy()
        y[idx] = ysub[()] if np.ndim(ysub) == 0 else ysub
        return y, ld
    if k == "reshape":
        inner_shape, inner_cond = ref_shape(t[1]), ref_cond(t[1])
        c2 = c if (c is None or inner_cond is None) else c.reshape(inner_cond)
        y, ld = ref_eval(t[1], sm.child(m.bijection), fwd, x.reshape(inner_shape), c2, ev)
        return y.reshape(ref_shape(t)), ld
    if k == "embed":
        c2 = ev.net(sm.child(m.embedding_net), c)
        return ref_eval(t[1], sm.child(m.bijection), fwd, x, c2, ev)
    if k in ("vmap_b", "vmap_m"):
        n, cax = t[2], t[3]
        inner = sm.child(m.bijection)
        ys, ld = [], (Fraction(0) if ev.symbolic else 0.0)
        for i in range(n):
            ci = c if (c is None or cax is None) else _arr(np.take(c, i, axis=cax), c)
            smi = inner.slice(i) if k == "vmap_m" else inner
            y, l = ref_eval(t[1], smi, fwd, _arr(x[i], x), ci, ev)
            ys.append(y)
            ld = _osum(ld, l)
        return np.stack(ys, axis=0), ld
    if k == "scan":
        inner = sm.child(m.bijection)
        order = list(range(t[2]))
        if not fwd:
            order.reverse()
        ld = Fraction(0) if ev.symbolic else 0.0
        for i in order:
            x, l = ref_eval(t[1], inner.slice(i), fwd, x, c, ev)
            ld = _osum(ld, l)
        return x, ld
    raise ValueError(k)


def _arr(v, like):
    if isinstance(v, np.ndarray):
        return v
    a = np.empty((), dtype=like.dtype)
    a[()] = v
    return a


class SymEv:
    symbolic = True

    def __init__(self, I):
        self.I = I
        self.cache = {}

    def __call__(self, sm, fwd, x, c):
        import jax.numpy as jnp
        from ..sym import trace
        from .. import jx
        meth = "transform_and_log_det" if fwd else "inverse_and_log_det"
        mk = sm.mk
        if c is None:
            j = trace(lambda P, xx: getattr(mk(P), meth)(xx), sm.leaves, jnp.zeros(np.shape(x)))
            y, ld = self.I.run(j, *sm.vals, x)
        else:
            j = trace(lambda P, xx, cc: getattr(mk(P), meth)(xx, cc), sm.leaves, jnp.zeros(np.shape(x)), jnp.zeros(np.shape(c)))
            y, ld = self.I.run(j, *sm.vals, x, c)
        # log-dets are summed to a scalar by every combinator's definition
        tot = Fraction(0)
        for v in np.asarray(ld, dtype=object).ravel():
            tot = jx.add(tot, v)
        return y, tot

    def net(self, sm, c):
        import jax.numpy as jnp
        from ..sym import trace
        mk = sm.mk
        j = trace(lambda P, cc: mk(P)(cc), sm.leaves, jnp.zeros(np.shape(c)))
        return self.I.run(j, *sm.vals, c)[0]


class ConcEv:
    symbolic = False

    def __call__(self, sm, fwd, x, c):
        import jax.numpy as jnp
        meth = "transform_and_log_det" if fwd else "inverse_and_log_det"
        mod = sm.mk([jnp.asarray(np.asarray(v, dtype=float)) for v in sm.vals])
        y, ld = getattr(mod, meth)(jnp.asarray(x, jnp.float64), None if c is None else jnp.asarray(c, jnp.float64))
        return np.asarray(y, dtype=float), float(np.sum(np.asarray(ld)))

    def net(self, sm, c):
        import jax.numpy as jnp
        mod = sm.mk([jnp.asarray(np.asarray(v, dtype=float)) for v in sm.vals])
        return np.asarray(mod(jnp.asarray(c, jnp.float64)), dtype=float)


# -----------------------------------------------------------------------------------------------------------------
# the tree zoo
# -----------------------------------------------------------------------------------------------------------------
def _valid(t):
    try:
        ref_shape(t), ref_cond(t)
        _check_children(t)
        return True
    except (AssertionError, ValueError, IndexError, TypeError, np.exceptions.AxisError):
        return False


def _check_children(t):
    for q in t[1:]:
        if isinstance(q, tuple) and q and isinstance(q[0], str) and q[0] in LEAFK + ("chain", "invert", "concat", "stack", "partial", "reshape", "embed", "vmap_b", "vmap_m", "scan"):
            ref_shape(q)
            _check_children(q)
        elif isinstance(q, list):
            for r in q:
                if isinstance(r, tuple):
                    ref_shape(r)
                    _check_children(r)


def trees(tier, seed=0):
    T = {}

    def add(name, t):
        assert _valid(t), name
        T[name] = t
    A = lambda s: ("affine", tuple(s))
    L = lambda s: ("loc", tuple(s))
    E = lambda s: ("exp", tuple(s))
    C = lambda s: ("addc", tuple(s))
    # --- Chain / Invert / indexing ---
    add("Chain[Affine,Exp,AddCond,Perm]", ("chain", [A((3,)), E((3,)), C((3,)), ("perm", (3,), [2, 0, 1])]))
    add("Invert(Chain[Affine,Exp])", ("invert", ("chain", [A((2,)), E((2,))])))
    add("Chain[Chain[Affine,Perm],Invert(Affine),Chain[Loc,Chain[AddCond,Exp]]]",
        ("chain", [("chain", [A((2,)), ("perm", (2,), [1, 0])]), ("invert", A((2,))), ("chain", [L((2,)), ("chain", [C((2,)), E((2,))])])]))
    # --- Concatenate: every axis, ranks 1-3, unequal part sizes, mixed kinds ---
    for rank in (1, 2, 3):
        for ax in range(-rank, rank):
            base = [2] * rank
            shapes = []
            for sz in ((1, 2) if rank == 3 else (1, 2, 3)):  # >= 3 parts: split offsets must be cumulative (2 parts cannot tell sizes from offsets)
                s = list(base)
                s[ax] = sz
                shapes.append(tuple(s))
            kinds = [A, C if rank < 3 else L, E]
            add(f"Concatenate(axis={ax},rank={rank})", ("concat", [kinds[i](s) for i, s in enumerate(shapes)], ax))
    # --- Stack: every axis in [-(r+1), r+1), child ranks 0-2 ---
    for rank in (0, 1, 2):
        for ax in range(-(rank + 1), rank + 1):
            s = tuple([2, 3][:rank])
            kids = [A(s), L(s), C(s) if rank >= 1 else E(s)]
            add(f"Stack(axis={ax},child rank={rank})", ("stack", kids, ax))
    # --- Partial: all index kinds ---
    add("Partial(int)", ("partial", A(()), ("int", 1), (3,)))
    add("Partial(negative int)", ("partial", A(()), ("int", -1), (3,)))
    add("Partial(slice)", ("partial", ("chain", [A((2,)), E((2,))]), ("slice", 1, 3, None), (4,)))
    add("Partial(strided slice)", ("partial", A((2,)), ("slice", None, None, 2), (4,)))
    add("Partial(int array)", ("partial", C((2,)), ("intarr", [3, 0]), (4,)))
    add("Partial(bool array)", ("partial", A((2,)), ("boolarr", [True, False, False, True]), (4,)))
    add("Partial(tuple (int, slice)) rank 2", ("partial", A((2,)), ("tuple", [("int", 1), ("slice", 0, 2, None)]), (2, 3)))
    add("Partial(tuple (slice, int)) rank 2", ("partial", A((2,)), ("tuple", [("slice", None, None, None), ("int", -1)]), (2, 3)))
    add("Partial(int on rank 2 -> row)", ("partial", A((3,)), ("int", 0), (2, 3)))
    add("Partial(bool mask rank 2)", ("partial", A((3,)), ("boolarr", [[True, False, True], [False, True, False]]), (2, 3)))
    # --- Reshape / EmbedCondition ---
    add("Reshape(Affine(4)->(2,2))", ("reshape", A((4,)), (2, 2), None))
    add("Reshape(AddCond (2,) -> (1,2), cond (2,)->(2,1))", ("reshape", C((2,)), (1, 2), (2, 1)))
    add("Reshape(Stack) -> flat", ("reshape", ("stack", [A((2,)), E((2,))], -1), (4,), None))
    add("EmbedCondition(AddCond, raw cond (3,))", ("embed", ("chain", [C((2,)), A((2,))]), (3,)))
    add("EmbedCondition(AddCond, raw cond (2,2))", ("embed", C((2,)), (2, 2)))
    # --- Vmap: broadcast / mapped parameters, condition axes ---
    add("Vmap(Affine(2), axis_size=3) broadcast params", ("vmap_b", A((2,)), 3, None))
    add("Vmap(vmapped Affine(2)) mapped params", ("vmap_m", A((2,)), 3, None))
    add("Vmap(vmapped Chain[Affine,Exp]) mapped params", ("vmap_m", ("chain", [A(()), E(())]), 2, None))
    add("Vmap(AddCond, broadcast condition)", ("vmap_b", C((2,)), 3, None))
    for cax in (0, 1, -1, -2):
        add(f"Vmap(AddCond, in_axes_condition={cax}) broadcast params", ("vmap_b", C((2,)), 3, cax))
    add("Vmap(vmapped AddCond, in_axes_condition=-1) mapped params", ("vmap_m", C((2,)), 2, -1))
    add("Vmap(Vmap(Affine)) rank 3", ("vmap_b", ("vmap_m", A((2,)), 2, None), 2, None))
    # --- Scan ---
    add("Scan(vmapped Affine x3)", ("scan", A((2,)), 3))
    add("Scan(vmapped Chain[AddCond,Affine] x2)", ("scan", ("chain", [C((2,)), A((2,))]), 2))
    # --- depth 2-3 mixes ---
    add("Chain[Stack(axis=-1),Perm,Vmap(Affine)]", ("chain", [("stack", [A((2,)), C((2,)), L((2,))], -1), ("perm", (2, 3), [5, 0, 3, 1, 4, 2]), ("vmap_b", A((3,)), 2, None)]))
    add("Concatenate[Partial(..),Invert(Stack)] axis=-2", ("concat", [("partial", A((2,)), ("tuple", [("int", 0), ("slice", 0, 2, None)]), (1, 2)),
                                                                      ("invert", ("stack", [A((2,)), E((2,))], 0))], -2))
    add("Stack[Concatenate,Reshape] axis=1", ("stack", [("concat", [A((1,)), C((2,))], 0), ("reshape", A((3, 1)), (3,), None)], 1))
    if tier != "quick":
        import random
        rng = random.Random(1234 + seed)
        n = 0
        guard = 0
        while n < 24 and guard < 4000:
            guard += 1
            t = _gen(rng, rng.choice([(2,), (3,), (2, 2), (2, 3)]), 3)
            if t is not None and not _has_none(t) and _valid(t) and _depth(t) >= 2:
                nm = f"generated#{n}: {_show(t)}"
                if nm not in T:
                    T[nm] = t
                    n += 1
    return T


def _depth(t):
    k = t[0]
    if k in LEAFK:
        return 0
    kids = t[1] if isinstance(t[1], list) else [t[1]]
    return 1 + max(_depth(q) for q in kids)


def _show(t):
    k = t[0]
    if k in LEAFK:
        return {"affine": "Affine", "loc": "Loc", "scale": "Scale", "exp": "Exp", "perm": "Permute", "flip": "Flip", "addc": "AddCond"}[k] + str(tuple(t[1])).replace(" ", "")
    if k in ("chain",):
        return "Chain[" + ",".join(_show(q) for q in t[1]) + "]"
    if k in ("concat", "stack"):
        return ("Concatenate" if k == "concat" else "Stack") + "[" + ",".join(_show(q) for q in t[1]) + f"]@{t[2]}"
    if k == "partial":
        return f"Partial({_show(t[1])},{t[2][0]})"
    if k in ("vmap_b", "vmap_m"):
        return f"Vmap{'~' if k == 'vmap_m' else ''}({_show(t[1])},n={t[2]},cax={t[3]})"
    if k == "scan":
        return f"Scan({_show(t[1])}x{t[2]})"
    if k == "reshape":
        return f"Reshape({_show(t[1])}->{t[2]})"
    return f"{k.capitalize()}({_show(t[1])})"


def _gen(rng, shape, depth):
    """random tree with the given shape (None if the draw is not realisable)"""
    shape = tuple(shape)
    rank = len(shape)
    if depth == 0 or rng.random() < 0.25:
        k = rng.choice(["affine", "loc", "exp", "addc", "perm", "flip"])
        if k == "perm":
            p = list(range(int(np.prod(shape)) if shape else 1))
            rng.shuffle(p)
            return ("perm", shape, p)
        return (k, shape)
    k = rng.choice(["chain", "invert", "concat", "stack", "partial", "reshape", "vmap_b", "vmap_m", "scan", "embed"])
    if k == "chain":
        return ("chain", [_gen(rng, shape, depth - 1) for _ in range(rng.choice([2, 3]))])
    if k == "invert":
        return ("invert", _gen(rng, shape, depth - 1))
    if k == "concat" and rank >= 1:
        ax = rng.randrange(-rank, rank)
        tot = shape[ax]
        if tot < 2:
            return None
        cut = rng.randrange(1, tot)
        s1, s2 = list(shape), list(shape)
        s1[ax], s2[ax] = cut, tot - cut
        return ("concat", [_gen(rng, s1, depth - 1), _gen(rng, s2, depth - 1)], ax)
    if k == "stack" and rank >= 1:
        ax = rng.randrange(-rank, rank)
        n = shape[ax]
        cs = list(shape)
        del cs[ax]
        return ("stack", [_gen(rng, cs, depth - 1) for _ in range(n)], ax)
    if k == "partial" and rank >= 1:
        n0 = shape[0]
        choice = rng.choice(["int", "slice", "intarr", "boolarr"])
        if choice == "int":
            return ("partial", _gen(rng, shape[1:], depth - 1), ("int", rng.randrange(-n0, n0)), shape)
        if choice == "slice" and n0 >= 2:
            return ("partial", _gen(rng, (n0 - 1,) + shape[1:], depth - 1), ("slice", 1, None, None), shape)
        if choice == "intarr" and n0 >= 2:
            idx = rng.sample(range(n0), 2)
            return ("partial", _gen(rng, (2,) + shape[1:], depth - 1), ("intarr", idx), shape)
        if choice == "boolarr" and n0 >= 2:
            mask = [True] + [False] * (n0 - 2) + [True]
            return ("partial", _gen(rng, (2,) + shape[1:], depth - 1), ("boolarr", mask), shape)
        return None
    if k == "reshape":
        n = int(np.prod(shape)) if shape else 1
        inner = rng.choice([(n,), shape[::-1]])
        return ("reshape", _gen(rng, inner, depth - 1), shape, None)
    if k in ("vmap_b", "vmap_m") and rank >= 1:
        inner = _gen(rng, shape[1:], depth - 1)
        if inner is None:
            return None
        if k == "vmap_m" and (_has(inner, ("perm", "partial", "vmap_m", "scan", "vmap_b", "flip")) or not _has(inner, ("affine", "loc", "scale", "addc"))):
            return None     # in_axes=if_array(0) needs parameters to map over (documented: otherwise use axis_size)
        cax = None
        if ref_cond_safe(inner) is not None:
            cax = rng.choice([None, 0, -1, 1, -2])
        return (k, inner, shape[0], cax)
    if k == "scan":
        inner = _gen(rng, shape, depth - 1)
        if inner is None or _has(inner, ("perm", "partial", "vmap_m", "scan", "vmap_b", "flip")) or not _has(inner, ("affine", "loc", "scale", "addc")):
            return None     # Scan needs stacked parameters to scan over
        return ("scan", inner, rng.choice([2, 3]))
    if k == "embed":
        inner = _gen(rng, shape, depth - 1)
        if inner is None or ref_cond_safe(inner) != COND:
            return None
        return ("embed", inner, rng.choice([(3,), (2, 2)]))
    return None


def ref_cond_safe(t):
    try:
        return ref_cond(t)
    except Exception:  # noqa
        return "invalid"


def _has(t, kinds):
    if t is None:
        return True
    if t[0] in kinds:
        return True
    if t[0] in LEAFK:
        return False
    kids = t[1] if isinstance(t[1], list) else [t[1]]
    return any(_has(q, kinds) for q in kids)


# -----------------------------------------------------------------------------------------------------------------
# obligations
# -----------------------------------------------------------------------------------------------------------------
def _tree(name, tier, seed):
    return trees(tier, seed)[name]


def _prepare(t):
    import jax
    jax.config.update("jax_enable_x64", True)
    import jax.random as jr
    from flowjax.wrappers import unwrap
    from ..sym import f64
    m = build(t, jr.PRNGKey(11))
    mu = f64(unwrap(m))
    return m, mu


def ob_tree(name, tier="quick", seed=0):
    import jax
    jax.config.update("jax_enable_x64", True)
    import jax.numpy as jnp
    from .. import jx
    from ..jx import Ctx, Interp, set_path
    from ..sym import leaves_of, symarr, trace
    from . import c03
    t = _tree(name, tier, seed)
    out = []
    rp = dict(func="c08:replay", kwargs=dict(name=name, tier=tier, seed=seed))
    shp, cshp = tuple(ref_shape(t)), ref_cond(t)
    cshp = None if cshp is None else tuple(cshp)
    n0 = f"C08/{name}"
    try:
        m, mu = _prepare(t)
    except Exception as e:  # noqa
        ok, msg = replay(name, tier, seed)
        return [rec(n0 + "/constructs", "violation" if ok else "error", detail=f"a valid expression (NumPy accepts these shapes/axes) could not be constructed: {type(e).__name__}: {e} | {msg}", replay=rp)]
    decl = (tuple(mu.shape), None if mu.cond_shape is None else tuple(mu.cond_shape))
    if decl != (shp, cshp):
        ok, msg = replay(name, tier, seed)
        return [rec(n0 + "/declared shape", "violation" if ok else "inconclusive", detail=f"declared shape/cond_shape {decl} but the definition gives {(shp, cshp)} | {msg}", replay=rp)]
    out.append(rec(n0 + f"/declared shape {shp} and cond_shape {cshp} equal NumPy's", "discharged", nontrivial=False))
    leaves, mk, paths = leaves_of(mu)
    syms = [symarr(f"p{i}", l.shape) for i, l in enumerate(leaves)]
    pre = []
    for sy, pth in zip(syms, paths):
        if pth.endswith(".scale") or pth.endswith("scale"):
            pre += [v != 0 for v in sy.ravel()]
    x = symarr("x", shp)
    c = None if cshp is None else symarr("c", cshp)
    cex = [] if c is None else [jnp.zeros(cshp)]
    cs = [] if c is None else [c]
    for fwd in (True, False):
        d = "transform" if fwd else "inverse"
        ctx = Ctx()
        I = Interp(ctx)
        set_path(list(pre), ctx.facts)
        try:
            jl = trace(lambda P, xx, *cc: getattr(mk(P), d + "_and_log_det")(xx, *cc), leaves, jnp.zeros(shp), *cex)
            jp = trace(lambda P, xx, *cc: getattr(mk(P), d)(xx, *cc), leaves, jnp.zeros(shp), *cex)
        except Exception as e:  # noqa
            set_path(None)
            ok, msg = replay(name, tier, seed)
            out.append(rec(n0 + f"/{d} accepts the declared shape", "violation" if ok else "error", detail=f"{type(e).__name__}: {str(e)[:300]} | {msg}", replay=rp))
            continue
        avals = [tuple(a.shape) for a in jl.out_avals]
        if avals != [shp, ()] or [tuple(a.shape) for a in jp.out_avals] != [shp]:
            set_path(None)
            ok, msg = replay(name, tier, seed)
            out.append(rec(n0 + f"/{d} returns the declared shape", "violation" if ok else "inconclusive", detail=f"output avals {avals} but declared {shp}, () | {msg}", replay=rp))
            continue
        try:
            ly, lld = I.run(jl, *syms, x, *cs)
            lp = I.run(jp, *syms, x, *cs)[0]
            ry, rld = ref_eval(t, SM(mu, syms), fwd, x, c, SymEv(I))
        except jx.Unsupported as e:
            set_path(None)
            out.append(rec(n0 + f"/{d}", "error", detail=f"unsupported: {e}"))
            continue
        set_path(None)
        c03.PRE[:] = pre
        for label, l, r in ((f"{d}_and_log_det(x)[0] == definition", ly, ry), (f"{d}_and_log_det(x)[1] == sum of the children's log-dets", lld, jx.oarr_s(rld)),
                            (f"{d}(x) == definition", lp, ry)):
            q0, s0 = jx.STATS.queries, jx.STATS.solver_s
            st, mdl, where = c03._cmp(name, label, ctx, l, r)
            nm = n0 + "/" + label
            if st == "unsat":
                out.append(rec(nm, "discharged", vacuity=True, nontrivial=jx.STATS.queries > q0, queries=jx.STATS.queries - q0, solver_s=jx.STATS.solver_s - s0))
            else:
                ok, msg = replay(name, tier, seed)
                out.append(rec(nm, "violation" if ok else "inconclusive", detail=f"{st} at {where} | replay on the real combinator: {msg}", replay=rp))
    return out


def replay(name, tier="quick", seed=0):
    """float64 evaluation of the real combinator against the same definitions with the children's real methods, on several points"""
    import jax
    jax.config.update("jax_enable_x64", True)
    import jax.numpy as jnp
    import jax.random as jr
    from flowjax.wrappers import unwrap
    from ..sym import f64, leaves_of
    t = _tree(name, tier, seed)
    shp, cshp = tuple(ref_shape(t)), ref_cond(t)
    try:
        m = build(t, jr.PRNGKey(11))
        mu = f64(unwrap(m))
    except Exception as e:  # noqa
        return True, f"constructor raised {type(e).__name__}: {str(e)[:200]} although NumPy accepts the same stack/concatenate/index (expected shape {shp})"
    decl = (tuple(mu.shape), None if mu.cond_shape is None else tuple(mu.cond_shape))
    if decl != (shp, None if cshp is None else tuple(cshp)):
        return True, f"declared {decl}, definition {(shp, cshp)}"
    leaves, mk, _ = leaves_of(mu)
    bad = []
    rng = np.random.RandomState(0)
    for trial in range(3):
        x = rng.uniform(0.2, 1.5, size=shp)
        c = None if cshp is None else rng.normal(size=cshp)
        for fwd in (True, False):
            d = "transform" if fwd else "inverse"
            try:
                gy, gl = getattr(m, d + "_and_log_det")(jnp.asarray(x), None if c is None else jnp.asarray(c))
                gp = getattr(m, d)(jnp.asarray(x), None if c is None else jnp.asarray(c))
            except Exception as e:  # noqa
                bad.append(f"{d} raised {type(e).__name__}: {str(e)[:160]}")
                continue
            ry, rl = ref_eval(t, SM(mu, [np.asarray(l, dtype=float) for l in leaves]), fwd, np.asarray(x, dtype=float), None if c is None else np.asarray(c, dtype=float), ConcEv())
            if np.shape(gy) != np.shape(ry) or not np.allclose(np.asarray(gy), ry, rtol=1e-5, atol=1e-6, equal_nan=True):
                bad.append(f"{d}: real {np.asarray(gy).ravel()[:6].tolist()} vs definition {np.asarray(ry).ravel()[:6].tolist()}")
            elif not np.allclose(np.asarray(gp), ry, rtol=1e-5, atol=1e-6, equal_nan=True):
                bad.append(f"{d} (without log-det) differs from definition")
            elif np.shape(gl) != () or not np.allclose(float(gl), float(rl), rtol=1e-5, atol=1e-6, equal_nan=True):
                bad.append(f"{d} log-det: real {np.asarray(gl).tolist()} vs definition {float(rl)}")
    return bool(bad), "; ".join(bad[:2]) or "real combinator agrees with the definition on the replay points"


# ---- merge_chains / indexing / slicing ---------------------------------------------------------------------------
def ob_chain_ops():
    import jax
    jax.config.update("jax_enable_x64", True)
    import jax.numpy as jnp
    import jax.random as jr
    import flowjax.bijections as fb
    from flowjax.wrappers import unwrap
    from .. import jx
    from ..jx import Ctx, Interp, set_path
    from ..sym import f64, leaves_of, symarr, trace
    from . import c03
    A = lambda s: ("affine", tuple(s))
    t = ("chain", [("chain", [A((2,)), ("perm", (2,), [1, 0]), ("chain", [("exp", (2,)), ("addc", (2,))])]), ("invert", A((2,))), ("chain", [("loc", (2,))]), ("affine", (2,))])
    flat = [A((2,)), ("perm", (2,), [1, 0]), ("exp", (2,)), ("addc", (2,)), ("invert", A((2,))), ("loc", (2,)), ("affine", (2,))]
    m = build(t, jr.PRNGKey(11))
    mu = f64(unwrap(m))
    leaves, mk, paths = leaves_of(mu)
    syms = [symarr(f"p{i}", l.shape) for i, l in enumerate(leaves)]
    pre = [v != 0 for sy, p in zip(syms, paths) if p.endswith("scale") for v in sy.ravel()]
    x, c = symarr("x", (2,)), symarr("c", COND)
    out = []
    rp = dict(func="c08:replay_chain_ops", kwargs={})
    Box = _box_cls()
    flat_mods = [mu.bijections[0].bijections[0], mu.bijections[0].bijections[1], mu.bijections[0].bijections[2].bijections[0], mu.bijections[0].bijections[2].bijections[1],
                 mu.bijections[1], mu.bijections[2].bijections[0], mu.bijections[3]]
    variants = [
        ("merge_chains()", lambda mm: mm.merge_chains(), t, mu),
        ("[0] (int index returns the first child)", lambda mm: mm[0], t[1][0], mu.bijections[0]),
        ("[-1]", lambda mm: mm[-1], t[1][-1], mu.bijections[-1]),
        ("[1:3] (slice returns the Chain of those children)", lambda mm: mm[1:3], ("chain", t[1][1:3]), Box(tuple(mu.bijections[1:3]))),
        ("[::-1][0:2] (reversed slice)", lambda mm: mm[::-1][0:2], ("chain", t[1][::-1][0:2]), Box(tuple(mu.bijections[::-1][0:2]))),
        ("merge_chains()[2:5]", lambda mm: mm.merge_chains()[2:5], ("chain", flat[2:5]), Box(tuple(flat_mods[2:5]))),
    ]
    for label, op, tref, sub in variants:
        nm = f"C08/Chain{label} preserves the function"
        try:
            got = op(mu)
            if "merge_chains()" == label:
                if any(isinstance(b, fb.Chain) for b in got.bijections) or len(got.bijections) != len(flat):
                    ok, msg = replay_chain_ops()
                    out.append(rec(nm, "violation" if ok else "inconclusive", detail=f"merge_chains left nested chains or changed the number of layers ({len(got.bijections)} vs {len(flat)}) | {msg}", replay=rp))
                    continue
            cond = ref_cond(tref)
            failed = False
            for fwd in (True, False):
                d = "transform_and_log_det" if fwd else "inverse_and_log_det"
                ctx = Ctx()
                I = Interp(ctx)
                set_path(list(pre), ctx.facts)
                cx, cs_ = ([jnp.zeros(COND)], [c]) if cond is not None else ([], [])
                jl = trace(lambda P, xx, *cc: getattr(op(mk(P)), d)(xx, *cc), leaves, jnp.zeros((2,)), *cx)
                ly, lld = I.run(jl, *syms, x, *cs_)
                # reference: the definition of the ORIGINAL nested expression restricted as the operation says
                ry, rld = ref_eval(tref, SM(sub, _vals_for(mu, syms, sub)), fwd, x, c if cond is not None else None, SymEv(I))
                set_path(None)
                c03.PRE[:] = pre
                for lab2, l, r in ((d + "[0]", ly, ry), (d + "[1]", lld, jx.oarr_s(rld))):
                    st, mdl, where = c03._cmp("chainops", lab2, ctx, l, r)
                    if st != "unsat":
                        ok, msg = replay_chain_ops()
                        out.append(rec(nm + f" ({lab2})", "violation" if ok else "inconclusive", detail=f"{st} at {where} | {msg}", replay=rp))
                        failed = True
                        break
                if failed:
                    break
            if not failed:
                out.append(rec(nm, "discharged", vacuity=True))
        except jx.Unsupported as e:
            out.append(rec(nm, "error", detail=f"unsupported: {e}"))
    return out


def _box_cls():
    if "b" not in _CN:
        import equinox as eqx

        class Box(eqx.Module):
            bijections: tuple
        _CN["b"] = Box
    return _CN["b"]


def _vals_for(mu, syms, sub):
    from ..sym import leaves_of
    ids = [id(l) for l in leaves_of(mu)[0]]
    return [syms[ids.index(id(l))] for l in leaves_of(sub)[0]]


def replay_chain_ops():
    import jax
    jax.config.update("jax_enable_x64", True)
    import jax.numpy as jnp
    import jax.random as jr
    import flowjax.bijections as fb
    A = lambda s: ("affine", tuple(s))
    t = ("chain", [("chain", [A((2,)), ("perm", (2,), [1, 0]), ("chain", [("exp", (2,)), ("addc", (2,))])]), ("invert", A((2,))), ("chain", [("loc", (2,))]), ("affine", (2,))])
    m = build(t, jr.PRNGKey(11))
    x, c = jnp.array([0.7, 1.3]), jnp.array([0.4, -0.6])
    bad = []
    y, ld = m.transform_and_log_det(x, c)
    mg = m.merge_chains()
    y2, ld2 = mg.transform_and_log_det(x, c)
    if not (np.allclose(y, y2) and np.allclose(ld, ld2)) or any(isinstance(b, fb.Chain) for b in mg.bijections):
        bad.append(f"merge_chains: {np.asarray(y2).tolist()} vs {np.asarray(y).tolist()}")
    xi = m.inverse(y, c)
    if not np.allclose(mg.inverse(y, c), xi):
        bad.append("merge_chains inverse differs")
    if m[0] is not m.bijections[0] or m[-1] is not m.bijections[-1]:
        bad.append("integer indexing does not return the child")
    s = m[1:3]
    want = m.bijections[2].transform(m.bijections[1].transform(x, c), c)
    if not np.allclose(s.transform(x, c), want):
        bad.append("slicing [1:3] changed the function")
    return bool(bad), "; ".join(bad) or "merge_chains / indexing / slicing preserve the function on the replay point"


def ob_merge_transforms():
    """merge_transforms never changes the distribution (shared harness with C03, nested levels that are Chains)"""
    from . import c03
    out = []
    for nm in ("nested with Chain levels", "T(T(Normal,AdditiveCondition),Affine) [conditional base, unconditional bijection]", "LogNormal"):
        for r in c03.ob_dist(nm):
            if "merge" in r["name"]:
                r = dict(r)
                r["name"] = r["name"].replace("C03/", "C08/merge_transforms/")
                out.append(r)
    return out


def ob_shape_algebra(max_children=3, max_rank=2):
    """E2: the real constructors on symbolic shapes and a symbolic axis (shared with C13; reported here under C08)"""
    from . import c13
    out = []
    for r in c13.ob_constructors(max_children=max_children, max_rank=max_rank):
        if "Transformed" in r["name"]:
            continue
        r = dict(r)
        r["name"] = r["name"].replace("C13/", "C08/shape algebra/")
        if isinstance(r.get("replay"), dict):
            r["replay"] = dict(r["replay"])
        out.append(r)
    return out


def obligations(tier, seed):
    T = trees(tier, seed)
    tasks = [dict(name=n, func="c08:ob_tree", kwargs=dict(name=n, tier=tier, seed=seed), cost=3.0 if ("Vmap" in n or "Scan" in n or "generated" in n) else 1.0) for n in T]
    tasks.append(dict(name="chain ops", func="c08:ob_chain_ops", kwargs={}, cost=4.0))
    tasks.append(dict(name="merge_transforms", func="c08:ob_merge_transforms", kwargs={}, cost=4.0))
    tasks.append(dict(name="shape algebra", func="c08:ob_shape_algebra", kwargs=dict(max_children=3 if tier == "quick" else 4, max_rank=2 if tier == "quick" else 3), cost=8.0))
    return tasks


def _has_none(t):
    if t is None:
        return True
    if t[0] in LEAFK:
        return False
    kids = t[1] if isinstance(t[1], list) else [t[1]]
    return any(_has_none(q) for q in kids)
