"""C18 - finite log-probabilities have finite gradients; log_prob is never NaN (E1: definedness analysis of value_and_grad jaxprs).

For a distribution Transformed(StandardNormal, b) (b a leaf in either orientation, or a flow factory) the jaxpr of
jax.value_and_grad(log_prob) w.r.t. (every float parameter, x) is interpreted symbolically.  Every element carries a definedness
bit (`ok` = the IEEE computation does not produce NaN at this operation: divisor != 0, log argument > 0, sqrt >= 0, |atanh arg| < 1,
no inf - inf / 0 * inf, ...) and an infinity kind.  Because the derivative terms of the UNSELECTED branch of a `where` are real
operations of the gradient jaxpr, the classic NaN-from-the-dead-branch shows up as a failed definedness obligation with a model at
the boundary point.  Per case of a domain split that contains every constant the code compares against as its own case:
    value finite  ==>  every gradient element defined and finite           (z3; a model is replayed on the real code in float64)
and on the out-of-support cases the value is exactly -inf.  'never NaN' additionally rests on the structural fact, checked on the
traced jaxpr, that the public log_prob ends in select(isnan(v), -inf, v).
"""
from __future__ import annotations

from fractions import Fraction

import numpy as np
import z3

from ..core import rec

META = dict(
    files=["flowjax/distributions.py", "flowjax/bijections/rational_quadratic_spline.py", "flowjax/bijections/tanh.py", "flowjax/bijections/softplus.py",
           "flowjax/bijections/exp.py", "flowjax/bijections/affine.py", "flowjax/bijections/planar.py", "flowjax/bijections/block_autoregressive_network.py", "flowjax/flows.py",
           "flowjax/bijections/coupling.py", "flowjax/bijections/masked_autoregressive.py"],
    functions=["jax.value_and_grad(AbstractDistribution.log_prob) w.r.t. (parameters, x) for Transformed(StandardNormal, b), b = every leaf bijection and Invert(leaf)",
               "the same for coupling_flow / masked_autoregressive_flow / planar_flow (raw parameters)", "AbstractDistribution.log_prob: final NaN -> -inf select"],
    trusted_base=["vlib/jx.py definedness/infinity tracking (conservative: a not-provably-defined operation makes the obligation fail, never pass)", "JAX reverse-mode autodiff", "z3 5.1.0"],
    assumptions=["floats as exact reals: overflow/underflow at large magnitudes is outside the claim", "leaf parameters unwrapped under their invariant (proved for the wrappers in C11); flows on raw parameters",
                 "a failed definedness obligation is only a candidate: it is reported only when the real float64 gradients at the model are NaN/inf while the value is finite"],
    bounds=dict(quick="scalar / dim-2 leaves, spline K=1 with symmetric and 0-excluding intervals (all parameters symbolic), flows: 1 layer, width 2, raw parameters symbolic",
                thorough="spline K=2, two flow layers, BlockAutoregressiveNetwork (Invert orientation)"),
    outside=["float overflow at magnitudes ~1e4+", "block_neural_autoregressive_flow / triangular_spline_flow factories (cannot be constructed in this environment)"],
)

# exp / expm1 overflow to +inf above log(max float64); the replay runs in float64, so a model beyond the threshold reproduces there
EXP_OVERFLOW = 709.782712893384

LEAVES_Q = ["affine2", "loc", "scale", "tri2l", "exp", "expvec", "softplus", "tanh", "leakytanh", "rqs1", "rqs1b", "planar2", "planar2s", "planar2tanh", "addcond", "perm3"]
LEAVES_T = LEAVES_Q + ["rqs2", "rqs2b", "tri3u", "planar1", "affine22"]


def _extra_cases(name, spec, var):
    """out-of-codomain inputs of the density direction (fwd orientation evaluates b.inverse at x)"""
    from ..zoo import Case
    v = var
    if name == "exp":
        return [Case("y<0", [v[()] < 0]), Case("y==0", [v[()] == 0])]
    if name == "expvec":
        return [Case("y_0<0", [v[0] < 0, v[1] > 0]), Case("y_0==0", [v[0] == 0, v[1] > 0])]
    if name == "softplus":
        return [Case("y<0", [v[()] < 0]), Case("y==0", [v[()] == 0])]
    if name == "tanh":
        return [Case("y<-1", [v[()] < -1]), Case("y==-1", [v[()] == -1]), Case("y==1", [v[()] == 1]), Case("y>1", [v[()] > 1])]
    return []


def _lp_fn(spec, orient):
    import flowjax.distributions as fd
    import flowjax.bijections as fb

    def lp(P, x, *c):
        b = spec.rebuild(P)
        if orient == "inv":
            b = fb.Invert(b)
        return fd.Transformed(fd.StandardNormal(spec.shape), b).log_prob(x, *c)
    return lp


def _grad_ok(outs, jx):
    gok = True
    for g in outs[1:]:
        for e in np.asarray(g, dtype=object).ravel():
            t, o, i = jx.split(e)
            gok = jx.band(gok, o, i == 0)
    return gok


def ob_leaf(name, orient, case_name):
    import jax
    jax.config.update("jax_enable_x64", True)
    from .. import zoo, jx
    from ..jx import Ctx, Interp, set_path, check, split, toz, is_z
    spec = zoo.get(name)
    lp = _lp_fn(spec, orient)
    cond = spec.cond_shape is not None
    ex = [spec.P_ex, spec.x_ex] + ([spec.c_ex] if cond else [])
    nm = f"C18/Transformed(StandardNormal, {'Invert(' if orient == 'inv' else ''}{spec.name}{')' if orient == 'inv' else ''})/{case_name}"
    if not spec.has_inverse and orient == "fwd":
        return []
    try:
        j = jax.make_jaxpr(lambda P, x, *c: jax.value_and_grad(lp, argnums=(0, 1))(P, x, *c))(*ex)
    except Exception as e:  # noqa
        return [rec(nm, "error", detail=f"could not differentiate: {type(e).__name__}: {str(e)[:300]}")]
    var = spec.y_sym if orient == "fwd" else spec.x_sym
    cases = (spec.y_cases() + _extra_cases(name, spec, var)) if orient == "fwd" else spec.x_cases()
    case = [c for c in cases if c.name == case_name][0]
    outside = case in cases[len(spec.y_cases()):] if orient == "fwd" else False
    ctx = Ctx()
    ctx.exp_overflow = EXP_OVERFLOW
    I = Interp(ctx)
    assume = spec.invariants(ctx) + case.assume
    set_path(assume, ctx.facts)
    try:
        outs = I.run(j, *spec.P_sym, var, *([spec.c_sym] if cond else []))
    except jx.Unsupported as e:
        set_path(None)
        return [rec(nm, "error", detail=f"unsupported: {e}")]
    set_path(None)
    st, _ = check(ctx, assume, z3.BoolVal(False), facts=False)
    if st != "sat":
        return [rec(nm, "error", detail=f"vacuous case assumption ({st})")]
    vt, vo, vi = split(outs[0][()])
    kw = dict(name=name, orient=orient)
    out = []
    if outside:
        # outside the support the density is exactly -inf (a number or -inf, never NaN)
        g = jx.band(vo, vi == -1)
        st, m = check(ctx, assume, toz(g) if is_z(g) else z3.BoolVal(bool(g)), name=nm + " value == -inf")
        if st == "unsat":
            return [rec(nm + ": log_prob == -inf outside the support", "discharged", vacuity=True)]
        return [_candidate(nm + ": log_prob == -inf outside the support", spec, m, var, st, kw, want_neg_inf=True)]
    fin = jx.band(vo, vi == 0)
    if fin is False:
        return [rec(nm + ": value is not finite anywhere on this case (nothing to prove)", "discharged", nontrivial=False)]
    a2 = assume + ([toz(fin)] if is_z(fin) else [])
    if is_z(fin):
        st, _ = check(ctx, a2, z3.BoolVal(False), facts=False)
        if st == "unsat":
            return [rec(nm + ": value is not finite anywhere on this case (nothing to prove)", "discharged", nontrivial=True)]
    gok = _grad_ok(outs, jx)
    st, m = check(ctx, a2, toz(gok) if is_z(gok) else z3.BoolVal(bool(gok)), name=nm + " gradients finite")
    if st == "unsat":
        # never +inf / NaN as a value either: on a case where finiteness is decidable it is finite
        return [rec(nm + ": finite log_prob => finite gradients w.r.t. x and every parameter", "discharged", vacuity=True, nontrivial=is_z(gok))]
    return [_candidate(nm + ": finite log_prob => finite gradients w.r.t. x and every parameter", spec, m, var, st, kw)]


def _candidate(nm, spec, m, var, st, kw, want_neg_inf=False):
    from .. import jx
    if m is None:
        return rec(nm, "inconclusive", detail=f"{st}: no model")
    P = [jx.model_floats(m, a).tolist() for a in spec.P_sym]
    x = jx.model_floats(m, var).tolist()
    c = None if spec.cond_shape is None else jx.model_floats(m, spec.c_sym).tolist()
    ok, msg = replay_leaf(P=P, x=x, c=c, want_neg_inf=want_neg_inf, **kw)
    return rec(nm, "violation" if ok else "inconclusive", detail=f"{st}; candidate x={x}: {msg}",
               replay=dict(func="c18:replay_leaf", kwargs=dict(P=P, x=x, c=c, want_neg_inf=want_neg_inf, **kw)))


def replay_leaf(name, orient, P, x, c=None, want_neg_inf=False):
    """real float64 value_and_grad at the model; also at the float neighbours of x"""
    import jax
    jax.config.update("jax_enable_x64", True)
    import jax.numpy as jnp
    from .. import zoo
    spec = zoo.get(name)
    lp = _lp_fn(spec, orient)
    P = spec.replay_P([np.asarray(p, dtype=float) for p in P])
    Pj = [jnp.asarray(p, jnp.float64) for p in P]
    cj = [] if c is None else [jnp.asarray(c, jnp.float64)]
    x0 = np.asarray(x, dtype=float)
    bad = []
    for xx in (x0, np.nextafter(x0, np.inf), np.nextafter(x0, -np.inf)):
        try:
            v, g = jax.value_and_grad(lp, argnums=(0, 1))(Pj, jnp.asarray(xx, jnp.float64), *cj)
        except Exception as e:  # noqa
            return True, f"real code raised {type(e).__name__}: {str(e)[:200]}"
        v = float(v)
        if np.isnan(v):
            bad.append(f"log_prob({xx.tolist()}) is NaN")
        if want_neg_inf and xx is x0 and not (v == -np.inf):
            bad.append(f"log_prob({xx.tolist()}) = {v}, expected -inf outside the support")
        if np.isfinite(v):
            flat = np.concatenate([np.asarray(l, dtype=float).ravel() for l in jax.tree_util.tree_leaves(g)])
            if not np.all(np.isfinite(flat)):
                bad.append(f"log_prob({xx.tolist()}) = {v} is finite but the gradient has {int(np.sum(~np.isfinite(flat)))} non-finite entries (parameters {[np.asarray(p).tolist() for p in P]})")
        if bad:
            break
    return bool(bad), "; ".join(bad[:2]) or "value and gradients behave on the real code at this point"


# ------------------------------------------------------------------------------------------------------------------
# flows (raw parameters) and the structural NaN -> -inf select
# ------------------------------------------------------------------------------------------------------------------
def _flow(kind, layers=1, invert=True, cond=None, knots=None):
    import jax.random as jr
    import jax.numpy as jnp
    from flowjax import flows
    import flowjax.bijections as fb
    import flowjax.distributions as fd
    key = jr.PRNGKey(4)
    base = fd.StandardNormal((2,))
    if kind == "coupling":
        return flows.coupling_flow(key, base_dist=base, cond_dim=cond, flow_layers=layers, nn_width=2, invert=invert)
    if kind == "coupling_rqs":
        return flows.coupling_flow(key, base_dist=base, cond_dim=cond, flow_layers=layers, nn_width=2, invert=invert,
                                   transformer=fb.RationalQuadraticSpline(knots=knots or 1, interval=2))
    if kind == "maf":
        return flows.masked_autoregressive_flow(key, base_dist=base, cond_dim=cond, flow_layers=layers, nn_width=2, invert=invert)
    if kind == "planar":
        return flows.planar_flow(key, base_dist=base, cond_dim=cond, flow_layers=layers, invert=invert, negative_slope=0.1)
    if kind == "bnaf":
        b = fb.BlockAutoregressiveNetwork(key, dim=2, cond_dim=cond, depth=1, block_dim=2)
        return fd.Transformed(base, fb.Invert(b))
    raise KeyError(kind)


def ob_flow(kind, layers=1, invert=True, symbolic=True, xcase="all"):
    import jax
    jax.config.update("jax_enable_x64", True)
    import jax.numpy as jnp
    import equinox as eqx
    from .. import jx
    from ..jx import Ctx, Interp, set_path, check, split, toz, is_z
    from ..sym import f64, leaves_of, symarr
    d = f64(_flow(kind, layers, invert))
    leaves, mk, paths = leaves_of(d)
    nm = f"C18/{kind}_flow(layers={layers}, invert={invert}, {'all raw parameters symbolic' if symbolic else 'parameters at initialisation'}): finite log_prob => finite gradients w.r.t. x and every raw parameter"
    kw = dict(kind=kind, layers=layers, invert=invert)
    try:
        j = jax.make_jaxpr(lambda P, x: jax.value_and_grad(lambda P_, x_: mk(P_).log_prob(x_), argnums=(0, 1))(P, x))(leaves, jnp.zeros(d.shape) + 0.3)
    except Exception as e:  # noqa
        return [rec(nm, "error", detail=f"could not differentiate: {type(e).__name__}: {str(e)[:300]}")]
    syms = [symarr(f"p{i}", l.shape) for i, l in enumerate(leaves)] if symbolic else [jx.oarr(np.asarray(l)) for l in leaves]
    x = symarr("x", d.shape)
    ctx = Ctx()
    ctx.exp_overflow = EXP_OVERFLOW if not symbolic else None     # overflow modelling with concrete parameters only (x symbolic)
    I = Interp(ctx)
    set_path([], ctx.facts)
    try:
        outs = I.run(j, *syms, x)
    except jx.Unsupported as e:
        set_path(None)
        return [rec(nm, "error", detail=f"unsupported: {e}")]
    set_path(None)
    vt, vo, vi = split(outs[0][()])
    fin = jx.band(vo, vi == 0)
    a2 = [toz(fin)] if is_z(fin) else []
    gok = _grad_ok(outs, jx)
    st, m = check(ctx, a2, toz(gok) if is_z(gok) else z3.BoolVal(bool(gok)), name=nm)
    if st == "unsat":
        return [rec(nm, "discharged", vacuity=True, nontrivial=is_z(gok))]
    if m is None:
        return [rec(nm, "inconclusive", detail=f"{st}: no model")]
    P = [jx.model_floats(m, a).tolist() for a in syms] if symbolic else [np.asarray(l).tolist() for l in leaves]
    xv = jx.model_floats(m, x).tolist()
    ok, msg = replay_flow(P=P, x=xv, **kw)
    return [rec(nm, "violation" if ok else "inconclusive", detail=f"{st}; candidate x={xv}: {msg}", replay=dict(func="c18:replay_flow", kwargs=dict(P=P, x=xv, **kw)))]


def replay_flow(kind, layers, invert, P, x):
    import jax
    jax.config.update("jax_enable_x64", True)
    import jax.numpy as jnp
    from ..sym import f64, leaves_of
    d = f64(_flow(kind, layers, invert))
    leaves, mk, _ = leaves_of(d)
    Pj = [jnp.asarray(np.asarray(p, dtype=float)).reshape(l.shape) for p, l in zip(P, leaves)]
    x0 = np.asarray(x, dtype=float)
    bad = []
    for xx in (x0, np.nextafter(x0, np.inf), np.nextafter(x0, -np.inf)):
        try:
            v, g = jax.value_and_grad(lambda P_, x_: mk(P_).log_prob(x_), argnums=(0, 1))(Pj, jnp.asarray(xx))
        except Exception as e:  # noqa
            return True, f"real code raised {type(e).__name__}: {str(e)[:200]}"
        v = float(v)
        if np.isnan(v):
            bad.append(f"log_prob({xx.tolist()}) is NaN")
        elif np.isfinite(v):
            flat = np.concatenate([np.asarray(l, dtype=float).ravel() for l in jax.tree_util.tree_leaves(g)])
            if not np.all(np.isfinite(flat)):
                bad.append(f"log_prob({xx.tolist()}) = {v} finite but {int(np.sum(~np.isfinite(flat)))} gradient entries are not finite")
        if bad:
            break
    return bool(bad), "; ".join(bad[:2]) or "value and gradients behave on the real code at this point"


def ob_nan_select():
    """AbstractDistribution.log_prob replaces NaN by -inf and leaves every other value alone: the REAL public method is traced around a
    private density that returns an arbitrary input value v (a distribution is any such v), and interpreted for v = NaN, v = -inf,
    v = +inf and a symbolic finite v, unbatched and batched; no concrete subclass overrides the public method (MRO closure)"""
    import jax
    jax.config.update("jax_enable_x64", True)
    import jax.numpy as jnp
    import flowjax.distributions as fd
    from .. import jx
    from ..jx import Ctx, Interp, set_path, split, check, toz, is_z
    from ..sym import symarr

    class ArbDist(fd.AbstractDistribution):
        val: object
        shape: tuple = ()
        cond_shape: tuple | None = None

        def _log_prob(self, x, condition=None):
            return self.val + 0 * x

        def _sample(self, key, condition=None):
            raise NotImplementedError
    out = []
    rp = dict(func="c18:replay_nan", kwargs={})
    for batched in (False, True):
        xs = jnp.zeros((2,)) if batched else jnp.zeros(())
        j = jax.make_jaxpr(lambda v, x: ArbDist(v).log_prob(x))(jnp.zeros(()), xs)
        x = symarr("x", xs.shape)
        for label, v, want in (("NaN", float("nan"), "-inf"), ("-inf", float("-inf"), "-inf"), ("+inf", float("inf"), "+inf"), ("a finite number", symarr("v", ())[()], "v")):
            nm = f"C18/public log_prob ({'batched' if batched else 'unbatched'} call) maps a private density value of {label} to {want}"
            ctx = Ctx()
            I = Interp(ctx)
            set_path([], ctx.facts)
            try:
                res = I.run(j, jx.oarr_s(v), x)[0]
            except jx.Unsupported as e:
                set_path(None)
                out.append(rec(nm, "error", detail=f"unsupported: {e}"))
                continue
            set_path(None)
            good = True
            why = ""
            for e in np.asarray(res, dtype=object).ravel():
                t, o, i = split(e)
                if want == "-inf":
                    g = jx.band(o, i == -1)
                elif want == "+inf":
                    g = jx.band(o, i == 1)
                else:
                    g = jx.band(o, i == 0, (jx.toreal(t) == jx.toreal(v)))
                st, m = check(ctx, [], toz(g) if is_z(g) else z3.BoolVal(bool(g)), name=nm)
                if st != "unsat":
                    good, why = False, f"{st}: element {e}"
                    break
            if good:
                out.append(rec(nm, "discharged", vacuity=True))
            else:
                ok, msg = replay_nan()
                out.append(rec(nm, "violation" if ok else "inconclusive", detail=f"{why} | {msg}", replay=rp))
    # MRO closure: every concrete distribution class inherits this very method
    bad = _overriders()
    nm = "C18/every concrete AbstractDistribution subclass uses AbstractDistribution.log_prob (no override bypasses the NaN -> -inf select)"
    if bad:
        ok, msg = replay_nan()
        out.append(rec(nm, "violation" if ok else "inconclusive", detail=f"overridden in {bad} | {msg}", replay=rp))
    else:
        out.append(rec(nm, "discharged", nontrivial=False))
    return out


def _overriders():
    import flowjax.distributions as fd
    import flowjax.flows  # noqa
    seen, stack, bad = set(), [fd.AbstractDistribution], []
    while stack:
        c = stack.pop()
        for s in c.__subclasses__():
            if s in seen:
                continue
            seen.add(s)
            stack.append(s)
            if s.__module__.startswith("flowjax") and s.log_prob is not fd.AbstractDistribution.log_prob:
                bad.append(s.__name__)
    return bad


def replay_nan():
    """NaN-producing inputs on real distributions: the public log_prob must return -inf, never NaN"""
    import jax
    jax.config.update("jax_enable_x64", True)
    import jax.numpy as jnp
    import flowjax.distributions as fd
    import flowjax.bijections as fb
    probes = [(fd.Transformed(fd.StandardNormal(()), fb.Tanh()), [1.0, -1.0, 2.0, -3.0, float("nan")]), (fd.Uniform(0.0, 1.0), [-1.0, 2.0, float("nan")]),
              (fd.LogNormal(0.0, 1.0), [-1.0, 0.0, float("nan")]), (fd.Transformed(fd.StandardNormal(()), fb.SoftPlus()), [-1.0, float("nan")])]
    bad = []
    for d, pts in probes:
        for p in pts:
            for x in (jnp.asarray(p), jnp.full((2,), p)):
                v = np.asarray(d.log_prob(x))
                if np.any(np.isnan(v)):
                    bad.append(f"{type(d).__name__}.log_prob({p}) = {v.tolist()}")
    bad += [f"{n}.log_prob overridden" for n in _overriders()]
    return bool(bad), "; ".join(bad[:3]) or "no NaN from the public log_prob on the probe points"


def obligations(tier, seed):
    from .. import zoo
    T = []
    for nm in (LEAVES_Q if tier == "quick" else LEAVES_T):
        spec = zoo.get(nm)
        for orient in ("fwd", "inv"):
            if orient == "fwd" and not spec.has_inverse:
                continue
            var = spec.y_sym if orient == "fwd" else spec.x_sym
            cases = (spec.y_cases() + _extra_cases(nm, spec, var)) if orient == "fwd" else spec.x_cases()
            for c in cases:
                T.append(dict(name=f"{nm}/{orient}/{c.name}", func="c18:ob_leaf", kwargs=dict(name=nm, orient=orient, case_name=c.name), cost=8.0 if (nm.startswith("rqs") and "bin" in c.name) else 1.0))
    for kind in ("coupling", "maf", "planar"):
        for invert in (True, False):
            T.append(dict(name=f"flow/{kind}/{invert}", func="c18:ob_flow", kwargs=dict(kind=kind, layers=1, invert=invert, symbolic=True), cost=10))
    T.append(dict(name="flow/coupling_rqs/init", func="c18:ob_flow", kwargs=dict(kind="coupling_rqs", layers=1, invert=True, symbolic=False), cost=15))
    if tier != "quick":
        for kind in ("coupling", "maf", "planar"):
            T.append(dict(name=f"flow/{kind}/2 layers", func="c18:ob_flow", kwargs=dict(kind=kind, layers=2, invert=True, symbolic=False), cost=20))
        T.append(dict(name="flow/coupling_rqs/init/fwd", func="c18:ob_flow", kwargs=dict(kind="coupling_rqs", layers=1, invert=False, symbolic=False), cost=15))
        T.append(dict(name="flow/bnaf", func="c18:ob_flow", kwargs=dict(kind="bnaf", layers=1, invert=True, symbolic=False), cost=20))
    T.append(dict(name="nan-select", func="c18:ob_nan_select", kwargs={}, cost=3))
    lv = [n for n in (LEAVES_Q if tier == "quick" else LEAVES_T)]
    for i in range(0, len(lv), 5):
        T.append(dict(name=f"translator-validation/{i // 5}", func="tval:ob_validate", kwargs=dict(names=lv[i:i + 5], grads=True, seed=seed), cost=6.0))
    return T
