"""C07 - elementary bijections compute their documented functions (E1: traced transform vs reference formulas)."""
from __future__ import annotations

import itertools
from fractions import Fraction

import numpy as np
import z3

from ..core import rec
from .. import refs

META = dict(
    files=["flowjax/bijections/affine.py", "flowjax/bijections/exp.py", "flowjax/bijections/softplus.py", "flowjax/bijections/tanh.py",
           "flowjax/bijections/utils.py", "flowjax/bijections/planar.py", "flowjax/bijections/rational_quadratic_spline.py"],
    functions=["<Class>.transform of every elementary bijection (traced)", "constructors: Affine, TriangularAffine, LeakyTanh, Permute, RationalQuadraticSpline (traced with symbolic arguments where JAX allows)"],
    trusted_base=["vlib/refs.py reference formulas written from the documentation / cited papers", "vlib/jx.py, z3 5.1.0", "exp/log laws of DESIGN section 8"],
    assumptions=["floats as exact reals", "parameters range over the representation invariant"],
    bounds=dict(quick="shapes <= (2,2), K=1 knots, all permutations of <= 3 elements (rank 1) and 4 elements (2x2)", thorough="K<=3, permutations of 4 elements rank 1"),
)

REFS = {
    "affine2": refs.ref_affine, "affine22": refs.ref_affine, "affine0": refs.ref_affine, "affine_bcast": refs.ref_affine, "affine_bcast2": refs.ref_affine,
    "loc": refs.ref_loc, "scale": refs.ref_scale,
    "tri2l": refs.ref_triangular, "tri2u": refs.ref_triangular, "tri3l": refs.ref_triangular, "tri3u": refs.ref_triangular,
    "addcond": refs.ref_addcond, "exp": refs.ref_exp, "expvec": refs.ref_exp, "softplus": refs.ref_softplus, "tanh": refs.ref_tanh,
    "leakytanh": refs.ref_leakytanh, "rqs1": refs.ref_rqs, "rqs1b": refs.ref_rqs, "rqs2": refs.ref_rqs, "rqs2b": refs.ref_rqs, "rqs3": refs.ref_rqs,
    "planar2": refs.ref_planar(0.1), "planar1": refs.ref_planar(0.1), "planar2tanh": refs.ref_planar(None), "planar2s": refs.ref_planar(2.0),
    "flip3": refs.ref_flip, "flip22": refs.ref_flip, "identity": refs.ref_identity,
}
QUICK = ["affine2", "affine22", "affine0", "affine_bcast", "affine_bcast2", "loc", "scale", "tri2l", "tri2u", "addcond", "exp", "expvec", "softplus", "tanh",
         "leakytanh", "rqs1", "rqs1b", "planar2", "planar2s", "planar2tanh", "flip3", "flip22", "identity"]
THOROUGH = QUICK + ["tri3l", "tri3u", "rqs2", "rqs2b", "rqs3", "planar1"]


def ob_ref(spec_name):
    """transform(x) == reference(x) with definedness, for every case of the domain split"""
    from .. import zoo, jx
    from ..bij import traced, eq_goal, Acc, witness_search, nontrivial_since, _sample, elems
    from ..jx import Ctx, Interp, set_path, check, split, toreal, toz, is_z, DEC
    from ..sym import all_ok
    spec = zoo.get(spec_name)
    ref = REFS[spec_name]
    out = []
    for case in spec.x_cases():
        name = f"C07/{spec.name}/transform==documented function/{case.name}"
        acc = Acc()

        def run(concrete=False):
            ctx = Ctx()
            I = Interp(ctx)
            inv = spec.invariants(ctx)
            cs = {c.name: c for c in spec.x_cases()}[case.name]
            assume = inv + cs.assume
            Psym = spec.P_sym
            set_path(assume, ctx.facts)
            seeds = spec.seeds(ctx, I, Psym, assume)
            if seeds:
                assume = assume + seeds
                DEC.add(*seeds)
            args = list(Psym) + [spec.x_sym] + ([spec.c_sym] if spec.cond_shape is not None else [])
            y = I.run(traced(spec, "transform"), *args)[0]
            r = ref(spec, ctx, spec.x_sym, spec.c_sym, cs)
            set_path(None)
            return ctx, assume, y, r
        try:
            ctx, assume, y, r = run()
        except jx.Unsupported as e:
            out.append(rec(name, "error", detail=f"unsupported: {e}"))
            continue
        st, m, where = eq_goal(ctx, assume, y, r, name)
        if st != "unsat":
            def build(concrete):
                c2, a2, y2, r2 = run()
                goals = []
                for l, rr in zip(elems(y2), elems(r2)):
                    goals.append(jx.band(split(l)[1], split(l)[2] == 0))
                    goals.append(toreal(split(l)[0]) == toreal(split(rr)[0]))
                return c2, a2, goals, None
            out.append(ref_witness(spec, case, build, acc, name, m))
        else:
            out.append(rec(name, "discharged", vacuity=True, nontrivial=nontrivial_since(acc), sample=_sample(), **acc.stats()))
    return out


def ref_witness(spec, case, build, acc, name, first):
    """witness search for a reference mismatch: candidates replayed against a float64 NumPy evaluation of the reference"""
    from ..bij import witness_search
    import vlib.bij as B
    B.REPLAYS["reference"] = replay_reference
    return witness_search(spec, "reference", "fwd", case, build, spec.x_sym, acc, name, first=first)


def np_reference(spec_key, P, x, c):
    """independent float64 NumPy implementation of the documented functions"""
    import math
    from .. import zoo
    spec = zoo.get(spec_key)
    P = spec.replay_P(P)
    named = {n: np.asarray(p, dtype=float) for n, p in zip(spec.P_names, P)}
    x = np.asarray(x, dtype=float)
    k = spec_key
    if k.startswith("affine"):
        return named["scale"] * x + named["loc"]
    if k == "loc":
        return x + named["loc"]
    if k == "scale":
        return x * named["scale"]
    if k.startswith("tri"):
        return named["triangular"] @ x + named["loc"]
    if k == "addcond":
        return x + named["module.weight"] @ np.asarray(c, dtype=float) + named["module.bias"]
    if k in ("exp", "expvec"):
        return np.exp(x)
    if k == "softplus":
        return np.log1p(np.exp(x))
    if k == "tanh":
        return np.tanh(x)
    if k == "leakytanh":
        m = float(named["max_val"])
        t = math.tanh(m)
        g = 1 - t * t
        return np.where(np.abs(x) >= m, np.sign(x) * t + g * (x - np.sign(x) * m), np.tanh(x))
    if k.startswith("flip"):
        return x[tuple(slice(None, None, -1) for _ in range(x.ndim))]
    if k == "identity":
        return x
    if k.startswith("planar"):
        p = named["params"]
        d = x.shape[0]
        w, u, b = p[:d], p[d:2 * d], p[2 * d]
        wtu = float(u @ w)
        m_ = -1 / (2.0 if k == "planar2s" else 1.0) + math.log(1 + math.log1p(math.exp(wtu)))   # constraint for the steepest slope
        uh = u + (m_ - wtu) * w / float(w @ w)
        z = float(w @ x + b)
        act = math.tanh(z) if k == "planar2tanh" else (z if z >= 0 else (2.0 if k == "planar2s" else 0.1) * z)
        return x + uh * act
    if k.startswith("rqs"):
        xp, yp, d = named["x_pos"], named["y_pos"], named["derivatives"]
        xv = float(x)
        if xv < xp[0] or xv > xp[-1]:
            return x
        j = int(np.clip(np.searchsorted(xp, xv, side="right") - 1, 0, len(xp) - 2))
        w_, h_ = xp[j + 1] - xp[j], yp[j + 1] - yp[j]
        s_ = h_ / w_
        xi = (xv - xp[j]) / w_
        return np.asarray(yp[j] + h_ * (s_ * xi * xi + d[j] * xi * (1 - xi)) / (s_ + (d[j + 1] + d[j] - 2 * s_) * xi * (1 - xi)))
    raise KeyError(k)


def replay_reference(spec_name, direction, P, x, c=None, kappa=None):
    from ..bij import real_call
    from ..sym import close
    from .. import zoo
    spec = zoo.get(spec_name)
    try:
        y = np.asarray(real_call(spec, "transform", P, x, c))
        r = np_reference(spec_name, P, x, c)
    except Exception as e:  # noqa
        return True, f"raised {type(e).__name__}: {e}"
    return (not close(y, r, 1e-7, spec.kappa)), f"transform(x)={y.tolist()} documented function={np.asarray(r).tolist()} x={np.asarray(x).tolist()}"


def ob_permute():
    """Permute(p): y.flat[i] == x.flat[p.flat[i]] and inverse undoes it, for every permutation of <= 3 elements (rank 1) and 4 elements (2x2)"""
    from .. import jx
    from ..sym import symarr, trace
    import jax.numpy as jnp
    import flowjax.bijections as fb
    from ..jx import Ctx, Interp
    bad = []
    n = 0
    shapes = [(1,), (2,), (3,), (2, 2)]
    for sh in shapes:
        size = int(np.prod(sh))
        for perm in itertools.permutations(range(size)):
            p = np.asarray(perm).reshape(sh)
            b = fb.Permute(jnp.asarray(p))
            x = symarr("x", sh)
            I = Interp(Ctx())
            y = I.run(trace(lambda v: b.transform(v), jnp.zeros(sh)), x)[0]
            xi = I.run(trace(lambda v: b.inverse(v), jnp.zeros(sh)), y)[0]
            n += 1
            ref = refs.ref_permute(p)(None, None, x, None)
            if not all(a is r_ or (jx.is_z(a) and a.eq(r_)) for a, r_ in zip(y.ravel(), ref.ravel())) or not all(a.eq(r_) for a, r_ in zip(xi.ravel(), x.ravel())):
                bad.append(p.tolist())
    name = f"C07/Permute: stated reordering for all {n} permutations of shapes {shapes}"
    if bad:
        return [rec(name, "violation", detail=f"wrong reordering for permutations {bad[:3]}", nontrivial=False,
                    replay=dict(func="c07:replay_permute", kwargs=dict(perm=bad[0])))]
    return [rec(name, "discharged", nontrivial=False, detail="symbolic inputs, outputs compared term by term (syntactic identity)")]


def replay_permute(perm):
    import jax.numpy as jnp
    import flowjax.bijections as fb
    p = np.asarray(perm)
    x = np.arange(p.size, dtype=float).reshape(p.shape) + 10
    y = np.asarray(fb.Permute(jnp.asarray(p)).transform(jnp.asarray(x)))
    exp = x.ravel()[p.ravel()].reshape(p.shape)
    return (not np.array_equal(y, exp)), f"Permute({p.tolist()}).transform({x.tolist()})={y.tolist()} documented {exp.tolist()}"


def ob_constructors():
    """constructor arguments are the parameters of the documented function (traced constructors, symbolic arguments)"""
    import jax
    import jax.numpy as jnp
    import flowjax.bijections as fb
    from flowjax.wrappers import unwrap
    from .. import jx
    from ..sym import symarr, trace, all_ok
    from ..jx import Ctx, Interp, set_path, check, prove_eq, split, toreal, toz
    from ..bij import eq_goal, Acc
    out = []
    # Affine(loc, scale): the unwrapped parameters are the (broadcast) constructor arguments, for every positive scale
    for lsh, ssh in (((2,), (2,)), ((3,), ()), ((), (2,)), ((2, 1), (2,))):
        acc = Acc()
        name = f"C07/Affine constructor loc{lsh} scale{ssh}: parameters == broadcast(loc), broadcast(scale)"
        osh = np.broadcast_shapes(lsh, ssh)
        loc, sc = symarr("loc", lsh), symarr("sc", ssh)
        ctx = Ctx()
        I = Interp(ctx)
        assume = [v > 0 for v in sc.ravel()]
        set_path(assume, ctx.facts)

        def mk(l, s_):
            b = unwrap(fb.Affine(l, s_))
            return b.loc, b.scale
        j = trace(mk, jnp.zeros(lsh), jnp.ones(ssh))
        ploc, psc = I.run(j, loc, sc)
        set_path(None)
        ok_shape = tuple(ploc.shape) == tuple(osh) and tuple(psc.shape) == tuple(osh)
        st1 = st2 = "shape"
        if ok_shape:
            st1, m, where = eq_goal(ctx, assume, ploc, np.broadcast_to(loc, osh), name)
            st2, m, where = eq_goal(ctx, assume, psc, np.broadcast_to(sc, osh), name)
        good = ok_shape and st1 == "unsat" and st2 == "unsat"
        if not good and not ok_shape:
            out.append(rec(name, "violation", detail=f"parameter shapes loc{ploc.shape} scale{psc.shape}, documented broadcast shape {osh}", nontrivial=False,
                           replay=dict(func="c07:replay_affine_shapes", kwargs=dict(lsh=list(lsh), ssh=list(ssh))), **acc.stats()))
        else:
            out.append(rec(name, "discharged" if good else "inconclusive", detail="" if good else f"loc {st1}, scale {st2}", **acc.stats()))
    # TriangularAffine(loc, arr, lower): A = requested triangle of arr (diagonal included), every dimension 1..5 (the element order of a
    # triangle stored as a vector only matters from dim 4 on)
    for lower in (True, False):
        for d in (1, 2, 3, 4, 5):
            acc = Acc()
            name = f"C07/TriangularAffine constructor lower={lower}, dim={d}: triangular == requested triangle of arr (diagonal kept, other triangle zero)"
            arr, loc = symarr("a", (d, d)), symarr("loc", (d,))
            ctx = Ctx()
            I = Interp(ctx)
            assume = [arr[i, i] > 0 for i in range(d)]
            set_path(assume, ctx.facts)
            try:
                j = trace(lambda l, a: unwrap(fb.TriangularAffine(l, a, lower=lower)).triangular, jnp.zeros(d), jnp.eye(d))
                T = I.run(j, loc, arr)[0]
            except jx.Unsupported as e:
                set_path(None)
                ok, msg = replay_triangular(lower, d)
                out.append(rec(name, "violation" if ok else "error", detail=f"unsupported: {e} | {msg}", replay=dict(func="c07:replay_triangular", kwargs=dict(lower=lower, d=d))))
                continue
            set_path(None)
            ref = np.empty((d, d), dtype=object)
            for i in range(d):
                for k in range(d):
                    ref[i, k] = arr[i, k] if ((k <= i) if lower else (k >= i)) else Fraction(0)
            st, m, where = eq_goal(ctx, assume, T, ref, name)
            if st == "unsat":
                out.append(rec(name, "discharged", **acc.stats()))
            else:
                ok, msg = replay_triangular(lower, d)
                out.append(rec(name, "violation" if ok else "inconclusive", detail=f"{st} at {where} | {msg}", replay=dict(func="c07:replay_triangular", kwargs=dict(lower=lower, d=d)), **acc.stats()))
    # RationalQuadraticSpline at initialisation: x_pos == y_pos and derivatives == 1 for every min_derivative in (0,1)
    acc = Acc()
    name = "C07/RationalQuadraticSpline constructor: identity at initialisation for every min_derivative in (0,1)"
    md = z3.Real("min_derivative")
    ctx = Ctx()
    I = Interp(ctx)
    assume = [md > 0, md < 1]
    set_path(assume, ctx.facts)

    def mk(m_):
        b = unwrap(fb.RationalQuadraticSpline(knots=2, interval=(-1, 3), min_derivative=m_))
        return b.x_pos, b.y_pos, b.derivatives
    j = trace(mk, jnp.array(1e-3))
    xp, yp, dv = I.run(j, jx.oarr_s(md))
    set_path(None)
    same = all((not jx.is_sym(a) and not jx.is_sym(b) and a == b) or (jx.is_z(split(a)[0]) and split(a)[0].eq(split(b)[0])) for a, b in zip(xp, yp))
    st, m, where = eq_goal(ctx, assume, dv, np.array([Fraction(1)] * len(dv), dtype=object), name)
    ok_ = same and st == "unsat"
    if ok_:
        out.append(rec(name, "discharged", **acc.stats()))
    else:
        mdv = None
        try:
            mdv = float(m[md].as_fraction()) if st == "sat" and m is not None and m[md] is not None else None
        except Exception:
            mdv = None
        bad_, msg = replay_rqs_init(mdv)
        out.append(rec(name, "violation" if bad_ else "inconclusive", detail=f"x_pos==y_pos: {same}; derivatives==1: {st} | {msg}",
                       replay=dict(func="c07:replay_rqs_init", kwargs=dict(min_derivative=mdv)), **acc.stats()))
    # LeakyTanh constructor contract (concrete, validated numerically against mpmath for several max_val)
    import mpmath
    mpmath.mp.dps = 40
    bad = []
    for mv in (0.5, 1.0, 3.0, 5.0, 0.1):
        b = fb.LeakyTanh(mv)
        t = mpmath.tanh(mv)
        g = 1 - t * t
        c_ = t - g * mv
        if abs(b.linear_grad - float(g)) > 1e-12 * max(1, float(g)) + 1e-15 or abs(b.intercept - float(c_)) > 1e-12 or b.max_val != float(mv):
            bad.append((mv, b.linear_grad, float(g), b.intercept, float(c_)))
    nm = "C07/LeakyTanh constructor contract: linear_grad == 1 - tanh(m)^2, intercept == tanh(m) - linear_grad*m (5 values of max_val, 1e-12)"
    out.append(rec(nm, "discharged", nontrivial=False) if not bad else
               rec(nm, "violation", detail=f"constructor constants off: {bad[:2]}", nontrivial=False, replay=dict(func="c07:replay_leaky", kwargs=dict(max_val=bad[0][0]))))
    return out


def replay_triangular(lower, d):
    import jax
    jax.config.update("jax_enable_x64", True)
    import jax.numpy as jnp
    import flowjax.bijections as fb
    from flowjax.wrappers import unwrap
    rng = np.random.RandomState(d)
    a = rng.normal(size=(d, d))
    a[np.arange(d), np.arange(d)] = np.abs(a[np.arange(d), np.arange(d)]) + 0.5
    loc = rng.normal(size=d)
    b = fb.TriangularAffine(jnp.asarray(loc), jnp.asarray(a), lower=lower)
    T = np.asarray(unwrap(b).triangular)
    want = np.tril(a) if lower else np.triu(a)
    x = rng.normal(size=d)
    y = np.asarray(b.transform(jnp.asarray(x)))
    bad = (not np.allclose(T, want, rtol=1e-9, atol=1e-12)) or (not np.allclose(y, want @ x + loc, rtol=1e-9, atol=1e-12))
    return bool(bad), f"TriangularAffine(lower={lower}, dim={d}): stored matrix {T.tolist()} vs requested triangle {want.tolist()}"


def replay_affine_shapes(lsh, ssh):
    import jax.numpy as jnp
    import flowjax.bijections as fb
    from flowjax.wrappers import unwrap
    b = unwrap(fb.Affine(jnp.zeros(tuple(lsh)), jnp.ones(tuple(ssh))))
    osh = tuple(np.broadcast_shapes(tuple(lsh), tuple(ssh)))
    return (tuple(b.loc.shape) != osh or tuple(b.scale.shape) != osh), f"Affine(loc{tuple(lsh)}, scale{tuple(ssh)}): loc.shape={b.loc.shape} scale.shape={b.scale.shape}, documented {osh}"


def replay_rqs_init(min_derivative=None):
    """real constructor: a fresh spline is the identity (knot derivatives 1, x_pos == y_pos) for the solver's min_derivative and a grid"""
    import numpy as np
    import jax.numpy as jnp
    import flowjax.bijections as fb
    from flowjax.wrappers import unwrap
    bad = []
    for mdv in [min_derivative] * (min_derivative is not None and 0 < min_derivative < 1) + [1e-3, 0.01, 0.1, 0.5, 0.9]:
        b = unwrap(fb.RationalQuadraticSpline(knots=2, interval=(-1, 3), min_derivative=mdv))
        dv = np.asarray(b.derivatives, dtype=float)
        xs = jnp.linspace(-0.9, 2.9, 7)
        ys = np.asarray([float(b.transform(x_)) for x_ in xs])
        if np.max(np.abs(dv - 1)) > 1e-5 or not np.array_equal(np.asarray(b.x_pos), np.asarray(b.y_pos)) or np.max(np.abs(ys - np.asarray(xs))) > 1e-5:
            bad.append(f"min_derivative={mdv}: derivatives at initialisation {dv.tolist()}, max |transform(x) - x| = {float(np.max(np.abs(ys - np.asarray(xs)))):.3g}")
    return bool(bad), "; ".join(bad[:2]) or "identity at initialisation on the replay grid"


def replay_leaky(max_val):
    import math
    import flowjax.bijections as fb
    b = fb.LeakyTanh(max_val)
    t = math.tanh(max_val)
    g = 1 - t * t
    return (abs(b.linear_grad - g) > 1e-10 or abs(b.intercept - (t - g * max_val)) > 1e-10), f"LeakyTanh({max_val}): linear_grad={b.linear_grad} (documented {g}) intercept={b.intercept} (documented {t - g * max_val})"


def ob_rqs_shape(spec_name):
    """spline: derivative at knot j equals d_j, strictly increasing on every bin, identity when x_pos == y_pos and d == 1"""
    from .. import zoo, jx
    from ..bij import traced, traced_jac, eq_goal, Acc, elems
    from ..jx import Ctx, Interp, set_path, check, split, toreal, toz, is_z
    spec = zoo.get(spec_name)
    out = []
    n = len(spec.sym["x_pos"])
    for case in spec.x_cases():
        acc = Acc()
        ctx = Ctx()
        I = Interp(ctx)
        inv = spec.invariants(ctx)
        assume = inv + case.assume
        set_path(assume, ctx.facts)
        J = I.run(traced_jac(spec), *spec.P_sym, spec.x_sym)[0][()]
        set_path(None)
        Jt, Jo, Ji = split(J)
        if case.name.startswith("bin"):
            name = f"C07/{spec.name}/strictly increasing on {case.name} (dy/dx > 0)"
            st, m = check(ctx, assume, z3.And(toz(jx.band(Jo, Ji == 0)), toreal(Jt) > 0), name=name)
        elif case.name.startswith("knot"):
            k = int(case.name[4:])
            name = f"C07/{spec.name}/derivative at {case.name} equals derivatives[{k}]"
            st, m = check(ctx, assume, z3.And(toz(jx.band(Jo, Ji == 0)), toreal(Jt) == toreal(spec.sym["derivatives"][k])), name=name)
        elif case.name in ("v<A", "v>B"):
            name = f"C07/{spec.name}/identity outside the interval: dy/dx == 1 ({case.name})"
            st, m = check(ctx, assume, toreal(Jt) == 1, name=name)
        else:
            continue
        out.append(rec(name, "discharged" if st == "unsat" else "inconclusive", detail="" if st == "unsat" else st, **acc.stats()))
    # identity when knots coincide and derivatives are 1
    acc = Acc()
    name = f"C07/{spec.name}/identity when x_pos == y_pos and derivatives == 1"
    fails = []
    for case in spec.x_cases():
        ctx = Ctx()
        I = Interp(ctx)
        inv = spec.invariants(ctx)
        extra = [toreal(a) == toreal(b) for a, b in zip(spec.sym["x_pos"], spec.sym["y_pos"]) if is_z(a) or is_z(b)] + [d == 1 for d in spec.sym["derivatives"]]
        assume = inv + case.assume + extra
        set_path(assume, ctx.facts)
        y = I.run(traced(spec, "transform"), *spec.P_sym, spec.x_sym)[0]
        set_path(None)
        st, m, where = eq_goal(ctx, assume, y, spec.x_sym, name)
        if st != "unsat":
            fails.append((case.name, st))
    out.append(rec(name, "discharged" if not fails else "inconclusive", detail=str(fails), **acc.stats()))
    return out


def obligations(tier, seed):
    names = QUICK if tier == "quick" else THOROUGH
    tasks = [dict(name=nm, func="c07:ob_ref", kwargs=dict(spec_name=nm), cost=5 if nm.startswith("rqs") else 1) for nm in names]
    tasks.append(dict(name="permute", func="c07:ob_permute", kwargs={}, cost=3))
    tasks.append(dict(name="constructors", func="c07:ob_constructors", kwargs={}, cost=3))
    for nm in [n for n in names if n.startswith("rqs")]:
        tasks.append(dict(name=nm + "/shape", func="c07:ob_rqs_shape", kwargs=dict(spec_name=nm), cost=5))
    return tasks
