"""C14 - methods are pure and transparent to jit and vmap (E1: equivalence of traces; serialisation is outside the claim).

What `jit` changes relative to eager execution of the same traced computation is (1) dead-code elimination - an `eqx.error_if` /
callback whose result is discarded runs eagerly but vanishes under jit - and (2) anything Python-side (a branch on a traced value, a
NumPy call on a tracer, hidden state) - which makes tracing fail or makes two traces differ.  Per (instance, method):
  * traceable with abstract inputs (a concretisation error while building the encoding IS the user-visible jit failure);
  * two independent traces are identical (no hidden state, no stale constants);
  * eager semantics (every equation executes, runtime-error predicates recorded) == jit semantics (dead code eliminated first): equal
    outputs and  z3: (some eager error fires) <=> (some jit error fires)  for all inputs; a model is replayed (eager call vs filter_jit);
  * jaxpr(vmap(method)) at batch 2: row i == the unbatched method on row i (z3, symbolic inputs and parameters).
Static fields holding arrays are searched for structurally.
"""
from __future__ import annotations

import numpy as np
import z3

from ..core import rec
from .. import jx as _jx

_jx.DETERMINISTIC_FRESH = True   # two interpretations of the same computation must give identical terms here

META = dict(
    files=["flowjax/bijections/bijection.py", "flowjax/distributions.py", "flowjax/wrappers.py", "flowjax/bijections/affine.py", "flowjax/bijections/tanh.py", "flowjax/bijections/exp.py",
           "flowjax/bijections/softplus.py", "flowjax/bijections/rational_quadratic_spline.py", "flowjax/bijections/planar.py", "flowjax/bijections/utils.py", "flowjax/bijections/chain.py",
           "flowjax/bijections/concatenate.py", "flowjax/bijections/jax_transforms.py", "flowjax/bijections/coupling.py", "flowjax/bijections/masked_autoregressive.py", "flowjax/flows.py"],
    functions=["transform / inverse / transform_and_log_det / inverse_and_log_det of every zoo bijection (leaves, combinators, Coupling, MaskedAutoregressive)",
               "log_prob / sample / sample_and_log_prob of the distribution zoo (families, Transformed, three flow factories)", "jax.vmap and eqx.filter_jit of those methods"],
    trusted_base=["jax.make_jaxpr; jax.interpreters.partial_eval.dce_jaxpr as the model of what jit keeps (effect-free equations without live outputs are removed)",
                  "JAX's own batching rules (vmap) and equinox.filter_jit", "vlib/jx.py", "z3 5.1.0"],
    assumptions=["floats as exact reals (jit may fuse/reorder float operations: rounding differences are outside the claim)", "serialisation / deserialisation is file I/O with no symbolic content: NOT decided",
                 "eager execution of a traced method executes exactly the traced equations (JAX dispatch)"],
    bounds=dict(quick="all leaf specs + combinators + Coupling/MAF of the zoo, vmap batch 2; distributions of the C03 zoo", thorough="adds K=2 splines, two-layer flows, vmap batch 3"),
    outside=["tree_serialise_leaves round trips (I/O)", "bit-identity of float results between eager and XLA-compiled code"],
)

METHODS = ("transform", "inverse", "transform_and_log_det", "inverse_and_log_det")
BIJ_Q = ["affine2", "affine_bcast", "loc", "scale", "tri2l", "addcond", "exp", "softplus", "tanh", "leakytanh", "rqs1", "rqs1b", "planar2", "planar2tanh", "perm3", "perm22", "flip3", "identity",
         "chain_ae", "chain_cond", "scan3", "vmap_mapped", "vmap_c1", "concatm1", "stackm1", "stack_r2_m2", "partial_boolarr", "partial_intarr", "invert_exp", "reshape", "embed", "coupling3", "coupling2c", "maf3", "maf2c"]
BIJ_T = BIJ_Q + ["rqs2", "tri3u", "bnaf2", "chain_nested", "vmap_bcast", "vmap_cm1", "concat_r2_0", "stack1", "partial_int", "partial_slice", "coupling2rqs", "cflow_inv", "mflow_fwd", "pflow_inv"]


def _errs(errors):
    from .. import jx
    p = False
    for e in errors:
        p = jx.bor(p, e)
    return p


def _same(a, b):
    from .. import jx
    a, b = jx.split(a), jx.split(b)
    for u, v in zip(a, b):
        if jx.is_z(u) and jx.is_z(v):
            if not u.eq(v):
                return False
        elif jx.is_z(u) or jx.is_z(v):
            return False
        elif u != v:
            return False
    return True


def ob_bij(name, batch=2):
    import jax
    jax.config.update("jax_enable_x64", True)
    import jax.numpy as jnp
    import equinox as eqx
    from jax.interpreters import partial_eval as pe
    from .. import zoo, jx
    from ..jx import Ctx, Interp, set_path, check, toz, is_z
    from ..sym import symarr
    from ..bij import eq_goal
    spec = zoo.get(name)
    cond = spec.cond_shape is not None
    ex = [spec.P_ex, spec.x_ex] + ([spec.c_ex] if cond else [])
    inv = lambda ctx: spec.invariants(ctx)
    out = []
    for meth in METHODS:
        if not spec.has_inverse and meth.startswith("inverse"):
            continue
        base = f"C14/{spec.name}.{meth}"
        kw = dict(name=name, meth=meth)
        rp = dict(func="c14:replay_bij", kwargs=kw)
        f = spec.fn(meth)
        g = (lambda P, x, c: f(P, x, c)) if cond else (lambda P, x: f(P, x))
        # (1) traceable, also through filter_jit and vmap
        try:
            j1 = jax.make_jaxpr(g)(*ex)
            j2 = jax.make_jaxpr(g)(*ex)
            jj = jax.make_jaxpr(eqx.filter_jit(g))(*ex)
            Xb = jnp.stack([spec.x_ex + 0.1 * i for i in range(batch)])
            if cond:
                Cb = jnp.stack([spec.c_ex + 0.1 * i for i in range(batch)])
                jv = jax.make_jaxpr(lambda P, X, C: jax.vmap(lambda x, c: f(P, x, c))(X, C))(spec.P_ex, Xb, Cb)
            else:
                jv = jax.make_jaxpr(lambda P, X: jax.vmap(lambda x: f(P, x))(X))(spec.P_ex, Xb)
        except Exception as e:  # noqa
            ok, msg = replay_bij(**kw)
            out.append(rec(base + ": traceable (jit / vmap)", "violation" if ok else "error", detail=f"{type(e).__name__}: {str(e)[:300]} | {msg}", replay=rp))
            continue
        # (2) determinism of tracing
        if str(j1) != str(j2):
            ok, msg = replay_bij(**kw)
            out.append(rec(base + ": two independent traces are identical", "violation" if ok else "inconclusive", detail="the jaxprs of two traces differ (hidden state) | " + msg, replay=rp))
            continue
        # (3) eager == jit (dead-code elimination): outputs and runtime errors
        nout = len(j1.jaxpr.outvars)
        dj, _used = pe.dce_jaxpr(j1.jaxpr, [True] * nout, instantiate=True)
        ctxE = Ctx()
        IE = Interp(ctxE)
        assume = inv(ctxE)
        set_path(assume, ctxE.facts)
        args = list(spec.P_sym) + [spec.x_sym] + ([spec.c_sym] if cond else [])
        try:
            oe = IE.eval(j1.jaxpr, [jx.oarr(c) for c in j1.consts], *[jx.oarr(a) for a in args])
            errsE = list(ctxE.errors)
            ctxE.errors = []
            oj = Interp(ctxE).eval(dj, [jx.oarr(c) for c in j1.consts], *[jx.oarr(a) for a in args])      # what jit keeps
            errsJ = list(ctxE.errors)
            ctxE.errors = []
            ojj = Interp(ctxE).run(jj, *args)                                                               # the filter_jit trace itself
            errsJJ = list(ctxE.errors)
        except jx.Unsupported as e:
            set_path(None)
            out.append(rec(base, "error", detail=f"unsupported: {e}"))
            continue
        set_path(None)
        same = all(a.shape == b.shape and all(_same(u, v) for u, v in zip(a.ravel(), b.ravel())) for a, b in zip(oe, oj)) and \
            all(a.shape == b.shape and all(_same(u, v) for u, v in zip(a.ravel(), b.ravel())) for a, b in zip(oe, ojj))
        ee, ej = _errs(errsE), _errs(errsJ)
        gl = (toz(ee) if is_z(ee) else z3.BoolVal(bool(ee))) == (toz(ej) if is_z(ej) else z3.BoolVal(bool(ej)))
        st, m = check(ctxE, assume, gl, name=base + " eager errors <=> jit errors")
        if same and st == "unsat":
            out.append(rec(base + ": eager == jit (same outputs; a runtime error fires eagerly iff it fires under jit)", "discharged", vacuity=True,
                           nontrivial=bool(errsE), detail=f"{len(errsE)} eager / {len(errsJ)} jit runtime checks; {len(j1.jaxpr.eqns) - len(dj.eqns)} top-level equations are dead code"))
        else:
            P = x = c = None
            if m is not None:
                P = [jx.model_floats(m, a).tolist() for a in spec.P_sym]
                x = jx.model_floats(m, spec.x_sym).tolist()
                c = jx.model_floats(m, spec.c_sym).tolist() if cond else None
            ok, msg = replay_bij(P=P, x=x, c=c, **kw)
            out.append(rec(base + ": eager == jit (same outputs; a runtime error fires eagerly iff it fires under jit)", "violation" if ok else "inconclusive",
                           detail=f"outputs syntactically equal: {same}; error equivalence: {st}; witness x={x} | {msg}", replay=dict(func="c14:replay_bij", kwargs=dict(P=P, x=x, c=c, **kw))))
            continue
        # (4) vmap == loop, per pair of domain cases (row 0 in case k, row 1 in case k+1: boundary points meet open cases)
        cases = spec.x_cases() if meth.startswith("transform") else spec.y_cases()
        var = spec.x_sym if meth.startswith("transform") else spec.y_sym
        X = symarr("X", (batch,) + tuple(spec.shape))
        C = symarr("C", (batch,) + tuple(spec.cond_shape)) if cond else None
        pairs = [(cases[k], cases[(k + 1) % len(cases)]) for k in range(len(cases))] if len(cases) > 1 else [(cases[0], cases[0])]
        bad = None
        from . import c03
        for ca, cb in pairs:
            ctx = Ctx()
            I = Interp(ctx)
            assume = inv(ctx)
            for i in range(batch):
                cs_ = ca if i % 2 == 0 else cb
                sb = [(v, X[i][idx] if np.ndim(X[i]) else X[i]) for idx, v in np.ndenumerate(var)]
                assume = assume + [z3.substitute(jx.toz(a), *sb) for a in cs_.assume]
            set_path(assume, ctx.facts)
            try:
                ov = I.run(jv, *spec.P_sym, X, *([C] if cond else []))
                rows = [I.run(j1, *spec.P_sym, X[i] if isinstance(X[i], np.ndarray) else jx.oarr_s(X[i]), *([C[i] if isinstance(C[i], np.ndarray) else jx.oarr_s(C[i])] if cond else [])) for i in range(batch)]
            except jx.Unsupported as e:
                set_path(None)
                bad = ("error", f"unsupported: {e}")
                break
            set_path(None)
            c03.PRE[:] = assume
            for k in range(nout):
                want = np.stack([np.asarray(r[k], dtype=object) for r in rows])
                if tuple(ov[k].shape) != tuple(want.shape):
                    bad = ("shape", f"output {k}: {ov[k].shape} vs {want.shape}")
                    break
                stv, mv, where = c03._cmp(name, "vmap", ctx, ov[k], want)
                if stv != "unsat":
                    bad = (stv, f"output {k} {where}, rows in cases ({ca.name}, {cb.name})")
                    break
            if bad is not None:
                break
        nmv = base + f": vmap over a batch of {batch} == the method applied row by row ({len(pairs)} case pair(s))"
        if bad is None:
            out.append(rec(nmv, "discharged", vacuity=True))
        elif bad[0] == "error":
            out.append(rec(nmv, "error", detail=bad[1]))
        else:
            ok, msg = replay_bij(**kw)
            out.append(rec(nmv, "violation" if ok else "inconclusive", detail=f"{bad[0]} at {bad[1]} | {msg}", replay=rp))
    return out


def replay_bij(name, meth, P=None, x=None, c=None):
    """eager vs filter_jit vs vmap on the real code (float64); the model point first, then probe points incl. boundary values"""
    import jax
    jax.config.update("jax_enable_x64", True)
    import jax.numpy as jnp
    import equinox as eqx
    from .. import zoo
    spec = zoo.get(name)
    f = spec.fn(meth)
    Pj = [jnp.asarray(p) for p in (spec.replay_P([np.asarray(p, dtype=float) for p in P]) if P is not None else spec.P_ex)]
    cj = None if spec.cond_shape is None else (jnp.asarray(c, jnp.float64) if c is not None else spec.c_ex)
    pts = []
    if x is not None:
        pts.append(np.asarray(x, dtype=float))
    for v in (0.3, -0.7, 1.0, -1.0, 2.0, -2.0, 3.0, 0.0, 25.0):
        pts.append(np.full(spec.shape, v))
    bad = []

    def run(fn, xx):
        try:
            r = fn(Pj, jnp.asarray(xx, jnp.float64), cj)
            jax.block_until_ready(r)
            return ("ok", jax.tree_util.tree_leaves(r))
        except Exception as e:  # noqa
            return ("raised", type(e).__name__)
    jf = eqx.filter_jit(lambda P_, x_, c_: f(P_, x_, c_))
    for xx in pts:
        a, b = run(f, xx), run(jf, xx)
        if a[0] != b[0]:
            bad.append(f"x={xx.tolist()}: eager {a[0]} ({a[1] if a[0] == 'raised' else ''}) but jit {b[0]}")
        elif a[0] == "ok" and not all(np.allclose(np.asarray(u), np.asarray(v), rtol=1e-9, atol=1e-12, equal_nan=True) for u, v in zip(a[1], b[1])):
            bad.append(f"x={xx.tolist()}: eager and jit values differ")
        if bad:
            break
    if not bad:
        X = jnp.stack([jnp.asarray(pts[-9], jnp.float64), jnp.asarray(pts[-8], jnp.float64)])
        try:
            if cj is None:
                v = jax.vmap(lambda x_: f(Pj, x_, None))(X)
            else:
                v = jax.vmap(lambda x_: f(Pj, x_, cj))(X)
            loop = [f(Pj, X[i], cj) for i in range(2)]
            vl = jax.tree_util.tree_leaves(v)
            for k, leaf in enumerate(vl):
                want = np.stack([np.asarray(jax.tree_util.tree_leaves(l)[k]) for l in loop])
                if not np.allclose(np.asarray(leaf), want, rtol=1e-9, atol=1e-12, equal_nan=True):
                    bad.append("vmap result differs from the loop")
        except Exception as e:  # noqa
            bad.append(f"vmap raised {type(e).__name__}: {str(e)[:150]}")
    return bool(bad), "; ".join(bad[:2]) or "eager, jit and vmap agree on the replay points"


# ------------------------------------------------------------------------------------------------------------------
def ob_dist(name):
    """distribution methods: traceable through filter_jit, deterministic traces, eager == jit (DCE), vmap(log_prob) == loop,
    same key => same sample (two interpretations give identical terms)"""
    import jax
    jax.config.update("jax_enable_x64", True)
    import jax.numpy as jnp
    import jax.random as jr
    import equinox as eqx
    from jax.interpreters import partial_eval as pe
    from .. import jx
    from ..jx import Ctx, Interp, set_path, check, toz, is_z
    from ..sym import symarr
    from . import c03
    d, leaves, mk, syms, x, c, key = c03._setup(name)
    pre = list(c03.PRE)
    cex = [] if c is None else [jnp.zeros(d.cond_shape)]
    cs = [] if c is None else [c]
    out = []
    rp = dict(func="c14:replay_dist", kwargs=dict(name=name))
    fns = {"log_prob": (lambda ls, xv, *cv: mk(ls).log_prob(xv, *cv), [leaves, jnp.zeros(d.shape) + 0.3] + cex, syms + [x] + cs),
           "sample": (lambda ls, k, *cv: mk(ls).sample(k, (), *cv), [leaves, jr.PRNGKey(0)] + cex, syms + [key] + cs),
           "sample_and_log_prob": (lambda ls, k, *cv: mk(ls).sample_and_log_prob(k, (), *cv), [leaves, jr.PRNGKey(0)] + cex, syms + [key] + cs)}
    for meth, (f, ex, sy) in fns.items():
        base = f"C14/{name}.{meth}"
        try:
            j1 = jax.make_jaxpr(f)(*ex)
            j2 = jax.make_jaxpr(f)(*ex)
            jax.make_jaxpr(eqx.filter_jit(f))(*ex)
        except Exception as e:  # noqa
            ok, msg = replay_dist(name)
            out.append(rec(base + ": traceable (jit)", "violation" if ok else "error", detail=f"{type(e).__name__}: {str(e)[:300]} | {msg}", replay=rp))
            continue
        if str(j1) != str(j2):
            ok, msg = replay_dist(name)
            out.append(rec(base + ": two independent traces are identical", "violation" if ok else "inconclusive", detail="jaxprs differ | " + msg, replay=rp))
            continue
        nout = len(j1.jaxpr.outvars)
        dj, _ = pe.dce_jaxpr(j1.jaxpr, [True] * nout, instantiate=True)
        ctxE = Ctx()
        IE = Interp(ctxE)
        set_path(pre, ctxE.facts)
        try:
            oe = IE.eval(j1.jaxpr, [jx.oarr(q) for q in j1.consts], *[jx.oarr(a) for a in sy])
            errsE = list(ctxE.errors)
            ctxE.errors = []
            oe2 = Interp(ctxE).eval(j1.jaxpr, [jx.oarr(q) for q in j1.consts], *[jx.oarr(a) for a in sy])
            ctxE.errors = []
            oj = Interp(ctxE).eval(dj, [jx.oarr(q) for q in j1.consts], *[jx.oarr(a) for a in sy])
            errsJ = list(ctxE.errors)
        except jx.Unsupported as e:
            set_path(None)
            out.append(rec(base, "error", detail=f"unsupported: {e}"))
            continue
        set_path(None)
        same = all(a.shape == b.shape and all(_same(u, v) for u, v in zip(a.ravel(), b.ravel())) for a, b in zip(oe, oj))
        rep = all(a.shape == b.shape and all(_same(u, v) for u, v in zip(a.ravel(), b.ravel())) for a, b in zip(oe, oe2))
        ee, ej = _errs(errsE), _errs(errsJ)
        gl = (toz(ee) if is_z(ee) else z3.BoolVal(bool(ee))) == (toz(ej) if is_z(ej) else z3.BoolVal(bool(ej)))
        st, m = check(ctxE, pre, gl, name=base + " eager errors <=> jit errors")
        if same and rep and st == "unsat":
            out.append(rec(base + ": eager == jit, and the same arguments (and key) give the same result", "discharged", vacuity=True, nontrivial=bool(errsE)))
        else:
            ok, msg = replay_dist(name)
            out.append(rec(base + ": eager == jit, and the same arguments (and key) give the same result", "violation" if ok else "inconclusive",
                           detail=f"eager/jit outputs equal: {same}; repeatable: {rep}; error equivalence: {st} | {msg}", replay=rp))
    # vmap(log_prob) == loop
    base = f"C14/{name}.log_prob: vmap over a batch of 2 == row by row"
    try:
        f = fns["log_prob"][0]
        X = symarr("X", (2,) + tuple(d.shape))
        if c is None:
            jv = jax.make_jaxpr(lambda ls, XX: jax.vmap(lambda xv: f(ls, xv))(XX))(leaves, jnp.zeros((2,) + tuple(d.shape)) + 0.3)
            j1 = jax.make_jaxpr(f)(leaves, jnp.zeros(d.shape) + 0.3)
            extra = []
        else:
            jv = jax.make_jaxpr(lambda ls, XX, cv: jax.vmap(lambda xv: f(ls, xv, cv))(XX))(leaves, jnp.zeros((2,) + tuple(d.shape)) + 0.3, *cex)
            j1 = jax.make_jaxpr(f)(leaves, jnp.zeros(d.shape) + 0.3, *cex)
            extra = [c]
        ctx = Ctx()
        I = Interp(ctx)
        set_path(pre, ctx.facts)
        ov = I.run(jv, *syms, X, *extra)[0]
        rows = [I.run(j1, *syms, X[i] if isinstance(X[i], np.ndarray) else jx.oarr_s(X[i]), *extra)[0] for i in range(2)]
        set_path(None)
        c03.PRE[:] = pre
        stv, mv, where = c03._cmp(name, "vmap", ctx, ov, np.stack([np.asarray(r, dtype=object) for r in rows]))
        if stv == "unsat":
            out.append(rec(base, "discharged", vacuity=True))
        else:
            ok, msg = replay_dist(name)
            out.append(rec(base, "violation" if ok else "inconclusive", detail=f"{stv} at {where} | {msg}", replay=rp))
    except jx.Unsupported as e:
        set_path(None)
        out.append(rec(base, "error", detail=f"unsupported: {e}"))
    except Exception as e:  # noqa
        ok, msg = replay_dist(name)
        out.append(rec(base, "violation" if ok else "error", detail=f"{type(e).__name__}: {str(e)[:300]} | {msg}", replay=rp))
    return out


def replay_dist(name):
    import jax
    jax.config.update("jax_enable_x64", True)
    import jax.numpy as jnp
    import jax.random as jr
    import equinox as eqx
    from . import c03
    from ..sym import f64
    d = f64(c03._dists()[name]())
    c = None if d.cond_shape is None else jnp.arange(1.0, 1 + int(np.prod(d.cond_shape))).reshape(d.cond_shape) * 0.4
    cb = () if c is None else (c,)
    bad = []
    for s in range(3):
        k = jr.PRNGKey(s)
        try:
            a = d.sample(k, (), *cb)
            b = eqx.filter_jit(lambda kk: d.sample(kk, (), *cb))(k)
            a2 = d.sample(k, (), *cb)
            if not (np.allclose(a, b, rtol=1e-9, atol=1e-12) and np.array_equal(np.asarray(a), np.asarray(a2))):
                bad.append(f"sample(key {s}): eager {np.asarray(a).tolist()} jit {np.asarray(b).tolist()} repeat {np.asarray(a2).tolist()}")
            la = d.log_prob(a, *cb)
            lb = eqx.filter_jit(lambda xx: d.log_prob(xx, *cb))(a)
            if not np.allclose(la, lb, rtol=1e-9, atol=1e-12, equal_nan=True):
                bad.append(f"log_prob eager {float(la)} jit {float(lb)}")
            X = jnp.stack([a, a + 0.1])
            lv = jax.vmap(lambda xx: d.log_prob(xx, *cb))(X)
            if not np.allclose(lv, jnp.stack([d.log_prob(X[0], *cb), d.log_prob(X[1], *cb)]), rtol=1e-9, atol=1e-12, equal_nan=True):
                bad.append("vmap(log_prob) differs from the loop")
        except Exception as e:  # noqa
            bad.append(f"raised {type(e).__name__}: {str(e)[:150]}")
    return bool(bad), "; ".join(bad[:2]) or "eager, jit, vmap and repeated calls agree on the replay points"


def _transplant_pairs():
    """(name, factory(variant)) : the same model class constructed twice with DIFFERENT constructor arguments that all end up in array leaves"""
    import jax.numpy as jnp
    import jax.random as jr
    import equinox as eqx
    import flowjax.distributions as fd
    import flowjax.bijections as fb
    from flowjax import flows
    v = jnp.array
    return {
        "Normal": lambda k: fd.Normal(v([0.3, -0.2]) + k, v([1.5, 0.7]) * (1 + k)),
        "Uniform": lambda k: fd.Uniform(v([0.0, -1.0]) - k, v([1.0, 2.0]) + k),
        "StudentT": lambda k: fd.StudentT(v([2.5]) + k, v([0.3]) - k, v([1.5]) + k),
        "Exponential": lambda k: fd.Exponential(v([1.5, 0.7]) * (1 + k)),
        "VmapMixture": lambda k: fd.VmapMixture(eqx.filter_vmap(fd.Normal)(v([0.0, 1.5]) + k, v([1.0, 0.6]) + k), v([1.0, 3.0]) if k == 0 else v([0.2, 0.5])),
        "MultivariateNormal": lambda k: fd.MultivariateNormal(v([0.3, -0.2]) + k, v([[2.0, 0.3], [0.3, 1.0]]) * (1 + k)),
        "Transformed(Normal, RationalQuadraticSpline)": lambda k: fd.Transformed(fd.Normal(v(0.1) + k, v(1.2) + k), fb.RationalQuadraticSpline(knots=2, interval=3)),
        "coupling_flow": lambda k: flows.coupling_flow(jr.PRNGKey(k), base_dist=fd.StandardNormal((2,)), flow_layers=1, nn_width=2),
        "masked_autoregressive_flow(cond)": lambda k: flows.masked_autoregressive_flow(jr.PRNGKey(5 + k), base_dist=fd.StandardNormal((2,)), cond_dim=1, flow_layers=1, nn_width=2),
    }


def ob_transplant(names):
    """behaviour is a function of the pytree leaves only (what flatten/unflatten and leaf (de)serialisation into a freshly constructed model
    rely on): two models of the same class built with different constructor arguments, given the SAME symbolic leaves, have identical
    log_prob and sample terms - nothing of the constructor arguments may survive outside the leaves (closures, static fields)"""
    import jax
    jax.config.update("jax_enable_x64", True)
    import jax.numpy as jnp
    import jax.random as jr
    from .. import jx
    from ..jx import Ctx, Interp, set_path
    from ..sym import f64, leaves_of, symarr, trace
    from . import c03
    out = []
    P = _transplant_pairs()
    for nm in names:
        name = f"C14/{nm}: a freshly constructed model given another model's leaves behaves identically (log_prob and sample depend on the leaves only)"
        rp = dict(func="c14:replay_transplant", kwargs=dict(nm=nm))
        m0, m1 = f64(P[nm](0)), f64(P[nm](1))
        l0, mk0, p0 = leaves_of(m0)
        l1, mk1, p1 = leaves_of(m1)
        if [tuple(a.shape) for a in l0] != [tuple(a.shape) for a in l1] or p0 != p1:
            out.append(rec(name, "error", detail="the two constructions do not have the same leaf structure"))
            continue
        syms = [symarr(f"p{i}", l.shape) for i, l in enumerate(l0)]
        x = symarr("x", m0.shape)
        key = symarr("k", (2,), z3.IntSort())
        c = None if m0.cond_shape is None else symarr("c", m0.cond_shape)
        cex = [] if c is None else [jnp.zeros(m0.cond_shape)]
        cs = [] if c is None else [c]
        ctx = Ctx()
        I = Interp(ctx)
        pre = [q > 0 for sy, pth in zip(syms, p0) if pth.endswith("scale") for q in sy.ravel()]
        set_path(pre, ctx.facts)
        bad = None
        try:
            for label, f, ex, args in (("log_prob", lambda mk: (lambda ls, xv, *cc: mk(ls).log_prob(xv, *cc)), [l0, jnp.zeros(m0.shape) + 0.3] + cex, syms + [x] + cs),
                                       ("sample", lambda mk: (lambda ls, k, *cc: mk(ls).sample(k, (), *cc)), [l0, jr.PRNGKey(0)] + cex, syms + [key] + cs)):
                a = I.run(trace(f(mk0), *ex), *args)
                b = I.run(trace(f(mk1), *ex), *args)
                c03.PRE[:] = pre
                st, m, where = c03._cmp(nm, "transplant " + label, ctx, b[0], a[0])
                if st != "unsat":
                    bad = (label, st, where)
                    break
        except jx.Unsupported as e:
            set_path(None)
            out.append(rec(name, "error", detail=f"unsupported: {e}"))
            continue
        set_path(None)
        if bad is None:
            out.append(rec(name, "discharged", vacuity=True))
        else:
            ok, msg = replay_transplant(nm)
            out.append(rec(name, "violation" if ok else "inconclusive", detail=f"{bad[0]}: {bad[1]} at {bad[2]} | {msg}", replay=rp))
    return out


def replay_transplant(nm):
    """real objects: serialise the leaves of model A, deserialise them into a freshly constructed model B (different constructor arguments),
    compare behaviour - the round trip the property describes (equinox.tree_serialise_leaves through an in-memory buffer)"""
    import io
    import jax
    jax.config.update("jax_enable_x64", True)
    import jax.numpy as jnp
    import jax.random as jr
    import equinox as eqx
    from ..sym import f64
    P = _transplant_pairs()
    a, like = f64(P[nm](0)), f64(P[nm](1))
    buf = io.BytesIO()
    eqx.tree_serialise_leaves(buf, a)
    buf.seek(0)
    b = eqx.tree_deserialise_leaves(buf, like)
    c = () if a.cond_shape is None else (jnp.full(a.cond_shape, 0.4),)
    bad = []
    for s_ in range(2):
        k = jr.PRNGKey(s_)
        xa = a.sample(k, (), *c)
        xb = b.sample(k, (), *c)
        if not np.allclose(np.asarray(xa), np.asarray(xb), rtol=1e-12, atol=0, equal_nan=True):
            bad.append(f"sample(key {s_}): original {np.asarray(xa).tolist()} restored {np.asarray(xb).tolist()}")
        la, lb = a.log_prob(xa, *c), b.log_prob(xa, *c)
        if not np.allclose(np.asarray(la), np.asarray(lb), rtol=1e-12, atol=0, equal_nan=True):
            bad.append(f"log_prob: original {float(la)} restored {float(lb)}")
    return bool(bad), "; ".join(bad[:2]) or "the restored model behaves identically on the replay points"


def ob_static_arrays():
    """no array is hidden in a static (non-leaf) field of any zoo model: after partitioning out every array leaf, no ndarray / jax.Array remains reachable"""
    import jax
    import jax.numpy as jnp
    import equinox as eqx
    from .. import zoo, zoo2
    from . import c03
    bad = []
    n = 0
    models = []
    for k in list(zoo.LEAVES) + list(zoo2.REG):
        try:
            models.append((k, zoo.get(k).raw_module))
        except Exception:  # noqa
            continue
    for k, mkd in c03._dists().items():
        models.append((k, mkd()))
    for k, m in models:
        n += 1
        _, static = eqx.partition(m, eqx.is_array)
        found = []

        def visit(o, depth=0, path=""):
            if depth > 12 or o is None:
                return
            if isinstance(o, (np.ndarray, jax.Array)):
                found.append(path)
                return
            if isinstance(o, (list, tuple)):
                for i, v in enumerate(o):
                    visit(v, depth + 1, f"{path}[{i}]")
            elif isinstance(o, dict):
                for kk, v in o.items():
                    visit(v, depth + 1, f"{path}[{kk!r}]")
            elif isinstance(o, eqx.Module):
                import dataclasses
                for f_ in dataclasses.fields(o):
                    try:
                        visit(getattr(o, f_.name), depth + 1, f"{path}.{f_.name}")
                    except Exception:  # noqa
                        pass
        visit(static)
        if found:
            bad.append(f"{k}: {found[:3]}")
    nm = f"C14/no array is stored in a static field ({n} zoo models walked after removing every array leaf)"
    if bad:
        return [rec(nm, "violation", detail="; ".join(bad[:4]), replay=dict(func="c14:replay_static", kwargs={}))]
    return [rec(nm, "discharged", nontrivial=False)]


def replay_static():
    r = ob_static_arrays()[0]
    return r["status"] == "violation", r.get("detail", "")


def obligations(tier, seed):
    from . import c03
    T = []
    for nm in (BIJ_Q if tier == "quick" else BIJ_T):
        heavy = nm.startswith("rqs") or nm.startswith("maf") or nm.startswith("coupling") or "flow" in nm
        T.append(dict(name=nm, func="c14:ob_bij", kwargs=dict(name=nm, batch=2 if (tier == "quick" or heavy) else 3), cost=8.0 if heavy else 1.0))
    for nm in (c03.QUICK if tier == "quick" else c03.THOROUGH):
        T.append(dict(name="dist/" + nm, func="c14:ob_dist", kwargs=dict(name=nm), cost=8.0 if ("flow" in nm or "maf" in nm) else 2.0))
    T.append(dict(name="static arrays", func="c14:ob_static_arrays", kwargs={}, cost=2.0))
    names = list(_transplant_pairs())
    for i in range(0, len(names), 3):
        T.append(dict(name=f"transplant/{i // 3}", func="c14:ob_transplant", kwargs=dict(names=names[i:i + 3]), cost=6.0))
    return T
