"""C10 - the bisection inverter finds the root of any increasing function (E1, invariant mode on the real loop bodies).

`_bisection_search` / `_adapt_interval_to_include_root` / `_autoregressive_bisection_search` are traced with the function
argument bound to a harness primitive that the interpreter maps to an UNINTERPRETED strictly increasing F with F(r) = 0
(monotonicity instantiated on all ground points).  The `while` equations are located in the jaxpr and their cond / body
jaxprs are executed ONCE from an arbitrary symbolic state: one inductive step covers every iteration count.
"""
from __future__ import annotations

from fractions import Fraction

import numpy as np
import z3

from ..core import rec

META = dict(
    files=["flowjax/bisection_search.py", "flowjax/bijections/block_autoregressive_network.py"],
    functions=["flowjax.bisection_search._bisection_search (cond_fn/body_fn jaxprs)", "_adapt_interval_to_include_root (cond_fn/body_fn jaxprs)",
               "_autoregressive_bisection_search (scan body)", "AutoregressiveBisectionInverter.__call__"],
    trusted_base=["vlib/jx.py", "z3 5.1.0", "induction over the number of loop iterations / coordinates (stated in DESIGN section 5 C10, each step machine-checked)"],
    assumptions=["F continuous strictly increasing with a root r (uninterpreted, monotonicity axioms on ground points)", "floats as exact reals: tolerances below float resolution (exit through max_iter only) outside the claim",
                 "lower < upper initially (documented precondition, checked by AutoregressiveBisectionInverter.__check_init__)"],
    bounds=dict(quick="unbounded iteration counts (inductive); driver dimension 3; bounded cross-check max_iter<=6 with linear f", thorough="driver dimension 4; cross-check max_iter<=10"),
)


def _setup():
    import jax
    import jax.numpy as jnp
    from jax.extend.core import Primitive
    from .. import jx
    uf_p = Primitive("uf_f")
    uf_p.def_abstract_eval(lambda x: jax.core.ShapedArray(x.shape, x.dtype))
    uf_p.def_impl(lambda x: x)
    F = z3.Function("F", z3.RealSort(), z3.RealSort())
    points = []

    def hook(I, e, ins):
        def ap(a):
            t, o, i = jx.split(a)
            t = jx.toreal(t)
            points.append(t)
            return F(t)
        return jx.emap(ap, ins[0])

    def axioms(r):
        ax = [F(r) == 0]
        pts = list({p.get_id(): p for p in points + [r]}.values())
        for i, a in enumerate(pts):
            for b in pts[i + 1:]:
                ax += [(a < b) == (F(a) < F(b)), (a == b) == (F(a) == F(b))]
        return ax
    return uf_p, F, points, hook, axioms


def find_whiles(j):
    out = []

    def rec_(jp):
        for e in jp.eqns:
            if e.primitive.name == "while":
                out.append(e)
            for v in e.params.values():
                if hasattr(v, "jaxpr") and hasattr(v.jaxpr, "eqns"):
                    rec_(v.jaxpr)
                elif hasattr(v, "eqns"):
                    rec_(v)
    rec_(j.jaxpr)
    return out


def ob_loops(tol=1e-3, max_iter=50):
    import jax
    import jax.numpy as jnp
    from flowjax.bisection_search import _bisection_search
    from .. import jx
    from ..jx import Ctx, Interp, check, split, toreal, toz
    from ..sym import rv
    uf_p, F, points, hook, axioms = _setup()
    jax.config.update("jax_enable_x64", True)
    jp = jax.make_jaxpr(lambda lo, up: _bisection_search(lambda x: uf_p.bind(x), lower=lo, upper=up, tol=tol, max_iter=max_iter))(jnp.array(-1.0), jnp.array(1.0))
    whiles = find_whiles(jp)
    out = []
    if len(whiles) != 2:
        return [rec("C10/structure: two while loops (adaptation, bisection) in _bisection_search", "error", detail=f"found {len(whiles)} while equations")]
    adapt, bis = whiles
    T = rv(Fraction(tol))
    r = z3.Real("r")

    def P(v):
        return toreal(split(v)[0])

    # ---------------- bisection loop ----------------
    points.clear()
    ctx = Ctx()
    I = Interp(ctx, hooks={"uf_f": hook})
    lo, up = z3.Reals("lo up")
    it = z3.Int("it")
    state = [jx.oarr_s(lo), jx.oarr_s(up), jx.oarr_s(it)]
    nb, nc = bis.params["body_nconsts"], bis.params["cond_nconsts"]
    cconst = [jx.oarr_s(z3.Real(f"cc{k}")) for k in range(nc)]
    bconst = [jx.oarr_s(z3.Real(f"bc{k}")) for k in range(nb)]
    c = split(I.sub(bis.params["cond_jaxpr"], cconst + state)[0][()])[0]
    lo2, up2, it2 = [a[()] for a in I.sub(bis.params["body_jaxpr"], bconst + state)]
    lo2, up2 = P(lo2), P(up2)
    it2 = split(it2)[0]
    inv = lambda l, u: z3.And(l <= r, r <= u)
    ax = axioms(r)
    c = toz(c)
    obl = [
        ("bisection step preserves lo<=r<=up, counts the iteration, halves the width or collapses onto the root",
         ax + [inv(lo, up), c], z3.And(inv(lo2, up2), it2 == it + 1, z3.Or(up2 - lo2 == (up - lo) / 2, z3.And(up2 == r, lo2 == r)))),
        ("loop condition is exactly (width > 2*tol) and (iterations < max_iter)",
         [], c == z3.And(up - lo > 2 * T, it < max_iter)),
        ("exit by width implies |midpoint - r| <= tol",
         ax + [inv(lo, up), z3.Not(c), it < max_iter], z3.And((lo + up) / 2 - r <= T, r - (lo + up) / 2 <= T)),
        ("a collapsed bracket stays collapsed on the root (no later step moves it)",
         ax + [lo == r, up == r, c], z3.And(lo2 == r, up2 == r)),
    ]
    for nm, assume, goal in obl:
        st, m = check(ctx, assume, goal, name="C10/" + nm, facts=False)
        out.append(rec("C10/" + nm, "discharged" if st == "unsat" else "inconclusive", detail="" if st == "unsat" else f"{st} {m.as_dict() if m else ''}",
                       replay=None, queries=1))
    st, _ = check(ctx, ax + [inv(lo, up), c], z3.BoolVal(False), facts=False)
    out.append(rec("C10/vacuity: the bisection step's hypotheses are satisfiable", "discharged" if st == "sat" else "error", nontrivial=False))

    # ---------------- adaptation loop ----------------
    points.clear()
    ctx = Ctx()
    I = Interp(ctx, hooks={"uf_f": hook})
    lo, up, ex = z3.Reals("lo up ex")
    sl, su = z3.Reals("sl su")
    it = z3.Int("it")
    nb, nc = adapt.params["body_nconsts"], adapt.params["cond_nconsts"]
    # state layout is read off the avals: five float scalars then one int
    avs = [v.aval for v in adapt.invars[nb + nc:]]
    names = [lo, up, ex, sl, su, it]
    if len(avs) != 6:
        return out + [rec("C10/adaptation loop state layout", "error", detail=f"{[str(a) for a in avs]}")]
    state = [jx.oarr_s(v) for v in names]
    cconst = [jx.oarr_s(z3.Real(f"cc{k}")) for k in range(nc)]
    bconst = [jx.oarr_s(z3.Real(f"bc{k}")) for k in range(nb)]
    c = toz(split(I.sub(adapt.params["cond_jaxpr"], cconst + state)[0][()])[0])
    nxt = [a[()] for a in I.sub(adapt.params["body_jaxpr"], bconst + state)]
    lo2, up2, ex2, sl2, su2 = [P(v) for v in nxt[:5]]
    it2 = split(nxt[5])[0]
    points.extend([lo, up, lo2, up2])
    ax = axioms(r)

    def sgn(v, s):
        return z3.And(z3.Implies(v > 0, s == 1), z3.Implies(v == 0, s == 0), z3.Implies(v < 0, s == -1))
    ainv = lambda l, u, e_, a, b: z3.And(l < u, e_ >= u - l, e_ > 0, sgn(F(l), a), sgn(F(u), b))
    obl = [
        ("adaptation step: with equal signs the bracket moves away from the wrong side by expand_by, the last evaluated end becomes the opposite bound, expand_by doubles, signs are re-evaluated",
         ax + [ainv(lo, up, ex, sl, su), c],
         z3.And(ainv(lo2, up2, ex2, sl2, su2), ex2 == 2 * ex, it2 == it + 1,
                z3.Implies(sl == 1, z3.And(up2 == lo, lo2 == lo - ex)), z3.Implies(sl != 1, z3.And(lo2 == up, up2 == up + ex)))),
        ("adaptation ranking function: the distance from the nearer end to the root decreases by at least expand_by while the root stays outside",
         ax + [ainv(lo, up, ex, sl, su), c],
         z3.And(z3.Implies(sl == 1, z3.And(r < lo, (up2 - r) == (lo - r), z3.Or(lo2 <= r, lo2 - r == (lo - r) - ex))),
                z3.Implies(sl != 1, z3.And(r > up, z3.Or(up2 >= r, r - up2 == (r - up) - ex))))),
        ("adaptation loop condition is exactly: both ends have the same sign",
         [], c == (sl == su)),
        ("adaptation exit: signs differ implies F(lower) <= 0 <= F(upper), i.e. the bracket contains the root",
         ax + [ainv(lo, up, ex, sl, su), z3.Not(c)], z3.And(F(lo) <= 0, F(up) >= 0, lo <= r, r <= up)),
    ]
    for nm, assume, goal in obl:
        st, m = check(ctx, assume, goal, name="C10/" + nm, facts=False)
        out.append(rec("C10/" + nm, "discharged" if st == "unsat" else "inconclusive", detail="" if st == "unsat" else f"{st} {m.as_dict() if m else ''}", queries=1))
    st, _ = check(ctx, ax + [ainv(lo, up, ex, sl, su), c], z3.BoolVal(False), facts=False)
    out.append(rec("C10/vacuity: the adaptation step's hypotheses are satisfiable", "discharged" if st == "sat" else "error", nontrivial=False))

    # ---------------- glue: whole _bisection_search with the loops replaced by their proved contracts ----------------
    points.clear()
    ctx = Ctx()
    log = []

    def while_hook(I_, e, cc, bc, state):
        k = len(log)
        fresh = []
        for idx, a in enumerate(state):
            sort = z3.IntSort() if np.issubdtype(e.invars[len(cc) + len(bc) + idx].aval.dtype, np.integer) else z3.RealSort()
            fresh.append(jx.oarr_s(z3.Const(f"h{k}_{idx}", sort)))
        log.append((e, state, fresh))
        return fresh
    I = Interp(ctx, hooks={"uf_f": hook, "while": while_hook})
    lo, up = z3.Reals("lo0 up0")
    res = I.run(jp, jx.oarr_s(lo), jx.oarr_s(up))
    root = P(res[0][()])
    ok_struct = len(log) == 2
    if ok_struct:
        (e1, s1, f1), (e2, s2, f2) = log
        a_in = [P(v[()]) for v in s1[:5]]
        a_out = [P(v[()]) for v in f1[:5]]
        b_in = [P(v[()]) for v in s2[:2]]
        b_out = [P(v[()]) for v in f2[:2]]
        points.extend([lo, up] + a_in[:2] + a_out[:2] + b_in[:2])
        ax = axioms(r)
        pre = [lo < up]
        # contract of the adaptation loop (proved above): exit state satisfies ainv and signs differ
        adapt_post = [ainv(*a_out), a_out[3] != a_out[4]]
        bis_post = [inv(b_out[0], b_out[1])]
        obl = [
            ("glue: the adaptation loop starts in its invariant (lower<upper, expand_by = upper-lower, signs of F at the ends)",
             ax + pre, ainv(*a_in)),
            ("glue: adaptation exit (incl. the exact-hit fix-up) establishes the bisection invariant lo<=r<=up",
             ax + pre + adapt_post, inv(b_in[0], b_in[1])),
            ("glue: the returned root is the midpoint of the final bracket",
             ax + pre + adapt_post + bis_post, root == (b_out[0] + b_out[1]) / 2),
        ]
        for nm, assume, goal in obl:
            st, m = check(ctx, assume, goal, name="C10/" + nm, facts=False)
            out.append(rec("C10/" + nm, "discharged" if st == "unsat" else "inconclusive", detail="" if st == "unsat" else f"{st} {m.as_dict() if m else ''}", queries=1))
    else:
        out.append(rec("C10/glue", "error", detail=f"expected 2 while loops at top level, saw {len(log)}"))
    for q in out:
        if q["status"] == "inconclusive":
            ok, msg = replay_search()
            if ok:
                q["status"] = "violation"
                q["detail"] += " | replay on the real search: " + msg
                q["replay"] = dict(func="c10:replay_search", kwargs={})
    return out


FAMILY = [("linear steep", lambda x, a: 50.0 * (x - a)), ("linear flat", lambda x, a: 1e-3 * (x - a)), ("cubic", lambda x, a: (x - a) ** 3 + 0.1 * (x - a)),
          ("sinh", None), ("kinked", None)]


def replay_search():
    """the real `_bisection_search` on concrete increasing functions with roots inside / on the ends / outside the interval"""
    import jax.numpy as jnp
    from flowjax.bisection_search import _bisection_search
    bad = []
    fns = {
        "steep": lambda a: (lambda x: 50.0 * (x - a)), "flat": lambda a: (lambda x: 1e-3 * (x - a)),
        "cubic": lambda a: (lambda x: (x - a) ** 3 + 0.1 * (x - a)), "sinh": lambda a: (lambda x: jnp.sinh(0.5 * (x - a))),
        "kinked": lambda a: (lambda x: jnp.where(x < a, 0.2 * (x - a), 3.0 * (x - a))),
    }
    for nm, mk in fns.items():
        for a in (0.3, -1.0, 1.0, 1.0000001, -7.7, 123.456, -1e3):
            for tol in (1e-2, 1e-5):
                try:
                    root, ad, it = _bisection_search(mk(a), lower=jnp.array(-1.0), upper=jnp.array(1.0), tol=tol, max_iter=200)
                except Exception as e:  # noqa
                    bad.append(f"{nm} root={a}: raised {type(e).__name__}")
                    continue
                if not (abs(float(root) - a) <= tol * (1 + 1e-6) + 1e-12 * abs(a)):
                    bad.append(f"{nm} root={a} tol={tol}: returned {float(root)} (error {abs(float(root) - a):.3g})")
    # narrow initial intervals very far from the root: the adaptation loop needs log2(distance / width) doublings (no fixed cap is sound)
    for lo_, up_, a in ((0.0, 1.0, 1e6), (0.0, 1.0, -3e7), (2.0, 2.001, 5e4), (-1e-3, 0.0, -2e5), (0.0, 1e-6, 40.0)):
        for nm in ("steep", "flat"):
            try:
                root, ad, it = _bisection_search(fns[nm](a), lower=jnp.array(lo_), upper=jnp.array(up_), tol=1e-4, max_iter=200)
            except Exception as e:  # noqa
                bad.append(f"{nm} root={a} on [{lo_}, {up_}]: raised {type(e).__name__}")
                continue
            if not (abs(float(root) - a) <= 1e-4 * (1 + 1e-6) + 1e-12 * abs(a)):
                bad.append(f"{nm} root={a} initial interval [{lo_}, {up_}] tol=1e-4: returned {float(root)} (error {abs(float(root) - a):.3g})")
    bad += _replay_float32()
    return bool(bad), "; ".join(bad[:4]) or "no discrepancy on the replay family"


_F32_CODE = r"""
import sys, json
import numpy as np
import jax
import jax.numpy as jnp
from flowjax.bisection_search import _bisection_search
assert not jax.config.jax_enable_x64
fns = {
    "steep": lambda a: (lambda x: 50.0 * (x - a)), "linear": lambda a: (lambda x: (x - a)),
    "cubic": lambda a: (lambda x: (x - a) ** 3 + 0.1 * (x - a)), "sinh": lambda a: (lambda x: jnp.sinh(0.5 * (x - a))),
    "kinked": lambda a: (lambda x: jnp.where(x < a, 0.2 * (x - a), 3.0 * (x - a))),
}
bad = []
for nm, mk in fns.items():
    for a in (1.2345e-3, -0.7071, 0.05, 3.3, -9.0):
        for tol in (1e-4, 1e-6, 1e-7):
            a32 = np.float32(a)
            try:
                root, ad, it = _bisection_search(mk(a32), lower=jnp.array(-10.0, jnp.float32), upper=jnp.array(10.0, jnp.float32), tol=tol, max_iter=200)
            except Exception as e:
                bad.append(f"float32 {nm} root={a}: raised {type(e).__name__}")
                continue
            ulp = float(np.spacing(np.float32(abs(a))))
            lim = max(tol, 4 * ulp) * 1.001
            err = abs(float(root) - float(a32))
            if not err <= lim:
                bad.append(f"float32 {nm} root={a} tol={tol} on [-10, 10]: returned {float(root)!r} (error {err:.3g} > max(tol, 4 ulp(root)) = {lim:.3g})")
print("RESULT" + json.dumps(bad[:6]))
"""


def _replay_float32():
    """single precision (the library default), fine tolerances on a wide bracket: the root must be resolved to the requested tolerance wherever
    the floats around the ROOT are dense enough (large bracket ends do not excuse a coarse answer).  Runs in a subprocess without x64."""
    import json
    import os
    import subprocess
    import sys
    env = dict(os.environ)
    env.pop("JAX_ENABLE_X64", None)
    env["JAX_PLATFORMS"] = "cpu"
    try:
        r = subprocess.run([sys.executable, "-c", _F32_CODE], env=env, capture_output=True, text=True, timeout=600)
    except Exception as e:  # noqa
        return []
    for line in r.stdout.splitlines():
        if line.startswith("RESULT"):
            return json.loads(line[6:])
    return []


def ob_bounded(max_iter=6):
    """bounded cross-check: full unrolling of the REAL search for f(x) = a*(x - r), symbolic a > 0, r, symbolic initial interval containing the root"""
    import jax
    import jax.numpy as jnp
    from flowjax.bisection_search import _bisection_search
    from .. import jx
    from ..jx import Ctx, Interp, check, split, toreal, set_path
    from ..sym import rv
    jax.config.update("jax_enable_x64", True)
    tol = 1e-3
    out = []
    a, r, lo, up = z3.Reals("a r lo up")
    j = jax.make_jaxpr(lambda a_, r_, l_, u_: _bisection_search(lambda x: a_ * (x - r_), lower=l_, upper=u_, tol=tol, max_iter=max_iter)[0])(
        jnp.array(1.0), jnp.array(0.2), jnp.array(-1.0), jnp.array(1.0))
    T = rv(Fraction(tol))
    # cases by the dyadic position of the root make every loop condition decidable; we use the symbolic-If path instead:
    ctx = Ctx()
    assume = [a > 0, lo < r, r < up, up - lo <= 2 * T * (2 ** max_iter)]
    I = Interp(ctx, hooks={"while": _unroll_sym(max_iter + 1)})
    set_path(assume, ctx.facts)
    root = split(I.run(j, *[jx.oarr_s(v) for v in (a, r, lo, up)])[0][()])[0]
    set_path(None)
    name = f"C10/bounded cross-check: real search fully unrolled (max_iter={max_iter}), f(x)=a(x-r), a>0, lo<r<up, width <= 2 tol 2^max_iter  =>  |root - r| <= tol"
    st, m = check(ctx, assume, z3.And(toreal(root) - r <= T, r - toreal(root) <= T), name=name, facts=False, timeout=120_000)
    if st == "unsat":
        out.append(rec(name, "discharged", queries=1))
    else:
        w = m.as_dict() if m else {}
        ok, msg = (replay_linear(w, tol, max_iter) if m else (False, "no model"))
        out.append(rec(name, "violation" if ok else "inconclusive", detail=f"{st} {w} | replay: {msg}", queries=1,
                       replay=dict(func="c10:replay_linear", kwargs=dict(w=w, tol=tol, max_iter=max_iter))))
    return out


def replay_linear(w, tol, max_iter):
    import jax.numpy as jnp
    from flowjax.bisection_search import _bisection_search
    a, r, lo, up = (float(w.get(k, d)) for k, d in (("a", 1.0), ("r", 0.0), ("lo", -1.0), ("up", 1.0)))
    root, _, _ = _bisection_search(lambda x: a * (x - r), lower=jnp.array(lo), upper=jnp.array(up), tol=tol, max_iter=max_iter)
    return abs(float(root) - r) > tol * (1 + 1e-9) + 1e-12, f"f(x)={a}(x-{r}) on [{lo},{up}] tol={tol} max_iter={max_iter}: returned {float(root)}, |error|={abs(float(root) - r):.3g}"


def _unroll_sym(bound):
    """while hook: unroll `bound` times with symbolic conditions (state' = If(cond, body(state), state))"""
    from .. import jx

    def hook(I, e, cc, bc, state):
        P_ = e.params
        for _ in range(bound):
            c = jx.split(I.sub(P_["cond_jaxpr"], list(cc) + state)[0][()])[0]
            if not jx.is_z(c):
                if not c:
                    return state
                state = list(I.sub(P_["body_jaxpr"], list(bc) + state))
                continue
            nxt = list(I.sub(P_["body_jaxpr"], list(bc) + state))
            state = [jx.emap(lambda n_, o_, c=c: jx.ite(c, n_, o_), n, o) for n, o in zip(nxt, state)]
        return state
    return hook


def ob_driver(dim=3):
    """autoregressive driver: at scan iteration i the scalar function handed to the search is x |-> fn(y[i:=x])[i] with the
    previously found roots in place, the root is written at index i and the index advances"""
    import jax
    import jax.numpy as jnp
    from jax.extend.core import Primitive
    from flowjax.bisection_search import _autoregressive_bisection_search
    from .. import jx
    from ..jx import Ctx, Interp, check, split, toreal
    jax.config.update("jax_enable_x64", True)
    fn_p = Primitive("uf_vec")
    fn_p.def_abstract_eval(lambda x: jax.core.ShapedArray(x.shape, x.dtype))
    calls = []
    G = [z3.Function(f"G{k}", *([z3.RealSort()] * (k + 2))) for k in range(dim)]

    def vhook(I, e, ins):
        v = [toreal(split(t)[0]) for t in ins[0]]
        calls.append(list(v))
        return np.array([G[k](*v[: k + 1]) for k in range(dim)], dtype=object)
    roots = []

    def while_hook(I_, e, cc, bc, state):
        # execute cond+body once from the given state to observe how the scalar function is built, then havoc
        n_before = len(calls)
        I_.sub(e.params["cond_jaxpr"], list(cc) + state)
        I_.sub(e.params["body_jaxpr"], list(bc) + state)
        k = len(roots)
        fresh = []
        for idx, a in enumerate(state):
            sort = z3.IntSort() if np.issubdtype(e.invars[len(cc) + len(bc) + idx].aval.dtype, np.integer) else z3.RealSort()
            fresh.append(jx.oarr_s(z3.Const(f"w{k}_{idx}", sort)))
        roots.append((n_before, len(calls), fresh))
        return fresh
    ctx = Ctx()
    I = Interp(ctx, hooks={"uf_vec": vhook, "while": while_hook})
    j = jax.make_jaxpr(lambda lo, up: _autoregressive_bisection_search(lambda x: fn_p.bind(x), lower=lo, upper=up, tol=1e-3, length=dim, max_iter=20))(jnp.array(-1.0), jnp.array(1.0))
    lo, up = z3.Reals("lo up")
    res = I.run(j, jx.oarr_s(lo), jx.oarr_s(up))[0]
    out = []
    problems = []
    # per coordinate i there are two while loops (adaptation, bisection); the result written at i is the midpoint of loop 2's bracket
    if len(roots) != 2 * dim:
        problems.append(f"expected {2 * dim} inner loops, saw {len(roots)}")
    found = []
    for i in range(dim):
        if len(roots) < 2 * i + 2:
            break
        fb = roots[2 * i + 1][2]
        mid = (toreal(split(fb[0][()])[0]) + toreal(split(fb[1][()])[0])) / 2
        found.append(z3.simplify(mid))
        # every call made while solving coordinate i: entries < i are the roots found so far, entries > i the initial midpoint
        lo_c, hi_c = roots[2 * i][0], roots[2 * i + 1][1]
        first_call = roots[2 * i - 1][1] if i > 0 else 0
        for v in calls[first_call:hi_c]:
            for k in range(dim):
                if k < i and not z3.simplify(v[k] - found[k] == 0) == True and not z3.is_true(z3.simplify(v[k] == found[k])):
                    problems.append(f"coordinate {i}: entry {k} of the vector handed to the function is {v[k]}, expected the root found for coordinate {k}")
                if k > i and not z3.is_true(z3.simplify(v[k] == (lo + up) / 2)):
                    problems.append(f"coordinate {i}: entry {k} is {v[k]}, expected the initial midpoint")
    for i in range(min(dim, len(found))):
        if not z3.is_true(z3.simplify(toreal(split(res[i])[0]) == found[i])):
            problems.append(f"output[{i}] = {res[i]} is not the root found for coordinate {i}")
    name = f"C10/autoregressive driver (dim={dim}): coordinate i is solved with the earlier roots in place, written at i, index advances"
    if problems:
        ok, msg = replay_driver()
        return [rec(name, "violation" if ok else "inconclusive", detail="; ".join(problems[:3]) + " | replay: " + msg, replay=dict(func="c10:replay_driver", kwargs={}))]
    out.append(rec(name, "discharged", nontrivial=True, queries=len(calls), detail=f"{len(calls)} function applications inspected"))
    # error accumulation for Lipschitz coupling: |x_i - x*_i| <= tol + L * sum_{k<i} |x_k - x*_k| / m  (linear arithmetic, d<=3)
    L, m_, tol = z3.Reals("L m tol")
    e = [z3.Real(f"e{k}") for k in range(dim)]
    assume = [L >= 0, m_ > 0, tol > 0] + [e[k] >= 0 for k in range(dim)]
    # per-coordinate contract: the scalar root is found within tol of the root of the PERTURBED scalar problem, whose root moves by <= (L/m) * sum of earlier errors
    assume += [e[k] <= tol + (L / m_) * sum(e[:k], z3.RealVal(0)) for k in range(dim)]
    bound = [tol * sum(((1 + L / m_) ** p for p in range(k + 1)), z3.RealVal(0)) for k in range(dim)]
    st, _ = check(Ctx(), assume, z3.And(*[e[k] <= tol * (1 + L / m_) ** k for k in range(dim)]), name="C10/error accumulation", facts=False)
    out.append(rec(f"C10/error accumulation across coordinates: e_k <= tol (1 + L/m)^k for coupling Lipschitz constant L and own-slope >= m (dim={dim})",
                   "discharged" if st == "unsat" else "inconclusive", detail="" if st == "unsat" else st, queries=1))
    return out


def replay_driver():
    import jax.numpy as jnp
    from flowjax.bisection_search import _autoregressive_bisection_search
    A = jnp.array([[2.0, 0.0, 0.0], [0.7, 1.5, 0.0], [-0.4, 0.3, 3.0]])
    xs = jnp.array([0.3, -2.0, 5.5])
    y = A @ xs
    got = _autoregressive_bisection_search(lambda x: A @ x - y, lower=jnp.array(-1.0), upper=jnp.array(1.0), tol=1e-7, length=3, max_iter=200)
    bad = float(jnp.max(jnp.abs(got - xs))) > 1e-5
    return bad, f"triangular linear map: recovered {got.tolist()} expected {xs.tolist()}"


def obligations(tier, seed):
    # `replay`: when the loop structure can no longer be encoded (harness error) the real search is run on the replay family
    rp = dict(func="c10:replay_search", kwargs={})
    return [dict(name="loops", func="c10:ob_loops", kwargs={}, cost=3, replay=rp),
            dict(name="bounded", func="c10:ob_bounded", kwargs=dict(max_iter=6 if tier == "quick" else 10), cost=5, replay=rp),
            dict(name="driver", func="c10:ob_driver", kwargs=dict(dim=3 if tier == "quick" else 4), cost=3, replay=dict(func="c10:replay_driver", kwargs={}))]
