"""C01 - every bijection is invertible: inverse undoes transform, both ways (E1)."""
from ..bij import ob_roundtrip  # noqa: F401  (resolved by name in workers)

QUICK = ["affine2", "affine22", "affine0", "affine_bcast", "affine_bcast2", "loc", "scale", "tri2l", "tri2u", "addcond", "exp", "expvec", "softplus", "tanh",
         "leakytanh", "rqs1", "rqs1b", "planar2", "planar2s", "perm3", "perm22", "flip3", "identity"]
# (the conditional planar layer `planar2c` is not in any tier: its conditioner can output w == 0, where get_act_scale divides by |w|^2 - the
#  singularity that the unconditional instances exclude by the stated precondition w != 0 and that cannot be assumed away at the level of the
#  network weights; the conditional layer is exercised through planar_flow in C03 / C14 / C18)
THOROUGH = QUICK + ["tri3l", "tri3u", "rqs2", "rqs2b", "rqs3", "planar1", "flip22"]

META = dict(
    files=["flowjax/bijections/bijection.py", "flowjax/bijections/affine.py", "flowjax/bijections/rational_quadratic_spline.py",
           "flowjax/bijections/tanh.py", "flowjax/bijections/softplus.py", "flowjax/bijections/exp.py", "flowjax/bijections/planar.py",
           "flowjax/bijections/coupling.py", "flowjax/bijections/masked_autoregressive.py", "flowjax/bijections/chain.py",
           "flowjax/bijections/concatenate.py", "flowjax/bijections/jax_transforms.py", "flowjax/bijections/utils.py", "flowjax/flows.py"],
    functions=["<Class>.transform / inverse / transform_and_log_det / inverse_and_log_det of every zoo instance (traced by jax.make_jaxpr)"],
    trusted_base=["jax.make_jaxpr faithfully represents eager execution", "vlib/jx.py primitive semantics (validated against concrete execution)",
                  "z3 5.1.0", "real-arithmetic laws of exp/log/sqrt listed in DESIGN section 8"],
    assumptions=["floats modelled as exact reals (rounding/overflow outside the claim)",
                 "unwrapped parameters range over their representation invariant (proved for the wrappers in C11)"],
)


def ob_roundtrip_all(spec_name):
    from .. import zoo
    spec = zoo.get(spec_name)
    out = []
    for direction, cases in (("fwd", spec.x_cases()), ("inv", spec.y_cases())):
        for c in cases:
            out += ob_roundtrip(spec_name, direction, c.name)
    return out


def obligations(tier, seed):
    from .. import zoo
    names = QUICK if tier == "quick" else THOROUGH
    tasks = []
    for nm in names:
        spec = zoo.get(nm)
        if not spec.has_inverse:
            continue
        if not nm.startswith("rqs"):
            tasks.append(dict(name=f"{nm}", func="c01:ob_roundtrip_all", kwargs=dict(spec_name=nm), cost=2.0))
            continue
        for direction, cases in (("fwd", spec.x_cases()), ("inv", spec.y_cases())):
            for c in cases:
                tasks.append(dict(name=f"{nm}/{direction}/{c.name}", func="c01:ob_roundtrip",
                                  kwargs=dict(spec_name=nm, direction=direction, case_name=c.name), cost=5.0 if "bin" in c.name else 1.0))
    from . import c01x
    tasks += c01x.obligations(tier, seed)
    # translator validation: the interpreter against JAX's concrete execution of the same jaxprs (harness self-check, exit 2 on disagreement)
    allnames = list(names) + (c01x.COMB_QUICK if tier == "quick" else c01x.COMB_THOROUGH) + (c01x.FWD_ONLY_QUICK if tier == "quick" else c01x.FWD_ONLY_THOROUGH)
    for i in range(0, len(allnames), 8):
        tasks.append(dict(name=f"translator-validation/{i // 8}", func="tval:ob_validate", kwargs=dict(names=allnames[i:i + 8], seed=seed), cost=4.0))
    return tasks
