"""C12 - unwrapping applies every wrapper exactly once; frozen parameters never move (E1 trace equivalence + E2 loop partition)."""
from __future__ import annotations

import numpy as np
import z3

from ..core import rec
from .. import jx as _jx

_jx.DETERMINISTIC_FRESH = True   # two interpretations of the same computation must give identical terms here

META = dict(
    files=["flowjax/wrappers.py", "flowjax/bijections/bijection.py", "flowjax/distributions.py", "flowjax/utils.py", "flowjax/train/data_fit.py", "flowjax/train/variational_fit.py",
           "flowjax/train/losses.py", "flowjax/train/train_utils.py"],
    functions=["flowjax.wrappers.unwrap / AbstractUnwrappable.recursive_unwrap / NonTrainable / non_trainable", "bijection + distribution methods with and without a prior unwrap",
               "eqx.filter_grad of log_prob w.r.t. frozen leaves", "flowjax.utils.get_ravelled_pytree_constructor", "train_utils.step (traced with SGD, Adam, AdamW)",
               "fit_to_data / fit_to_variational_target parameter partition (real code objects, recording step stub)"],
    trusted_base=["vlib/jx.py (stop_gradient is the identity on values; zero cotangents appear as literal zeros in the gradient jaxpr)", "z3 5.1.0", "JAX reverse-mode autodiff"],
    assumptions=["induction over the number of training steps (one step proved: frozen and non-floating leaves are not among the optimised parameters at all, hence identity terms)"],
    bounds=dict(quick="wrappers nested up to 3 levels, vmapped construction 1 level, models: Normal, Affine chain, coupling flow (1 layer), BNAF linear layer", thorough="2 levels of vmapped construction, masked autoregressive flow"),
)


def _same(a, b):
    from .. import jx
    a, b = jx.split(a)[0], jx.split(b)[0]
    if jx.is_z(a) and jx.is_z(b):
        return a.eq(b)
    if not jx.is_z(a) and not jx.is_z(b):
        return a == b
    return False


def _models():
    import jax.numpy as jnp
    import jax.random as jr
    import equinox as eqx
    import flowjax.bijections as fb
    import flowjax.distributions as fd
    from flowjax import flows
    from flowjax.bijections.block_autoregressive_network import block_autoregressive_linear
    from flowjax.wrappers import NonTrainable, non_trainable, Lambda, BijectionReparam, Where, WeightNormalization
    key = jr.PRNGKey(0)
    M = {
        "Affine": lambda: fb.Affine(jnp.array([0.5, -1.0]), jnp.array([2.0, 0.5])),
        "RQS (Lambda wrappers)": lambda: fb.RationalQuadraticSpline(knots=1, interval=2),
        "BNAF linear (WeightNormalization(Where(BijectionReparam)))": lambda: block_autoregressive_linear(key, n_blocks=2, block_shape=(1, 1))[0],
        "tuple/list containers": lambda: (fb.Affine(jnp.array(0.5), jnp.array(2.0)), [fb.Scale(jnp.array(3.0)), {"k": NonTrainable(jnp.array(1.5))}]),
        "vmapped Affine": lambda: eqx.filter_vmap(lambda p: fb.Affine(p, p + 0.5))(jnp.array([0.5, 1.5, 2.5])),
        "vmapped RQS": lambda: eqx.filter_vmap(lambda: fb.RationalQuadraticSpline(knots=1, interval=2), axis_size=2)(),
        "Chain with frozen Loc": lambda: fb.Chain([fb.Affine(jnp.array([0.5, -1.0]), jnp.array([2.0, 0.5])), non_trainable(fb.Loc(jnp.array([0.1, 0.2])))]),
        "coupling_flow": lambda: flows.coupling_flow(key, base_dist=fd.StandardNormal((2,)), flow_layers=1, nn_width=2),
        "Normal": lambda: fd.Normal(jnp.array([0.3, -0.2]), jnp.array([1.5, 0.7])),
        # distributions that consume a wrapper-valued parameter DIRECTLY (not through a bijection): only the distribution's own unwrap protects them
        "StudentT (df is a BijectionReparam)": lambda: fd.StudentT(jnp.array([2.5, 4.0]), jnp.array([0.3, -0.2]), jnp.array([1.5, 0.7])),
        "VmapMixture (weights are a Lambda)": lambda: fd.VmapMixture(eqx.filter_vmap(fd.Normal)(jnp.array([0.0, 1.5]), jnp.array([1.0, 0.6])), jnp.array([1.0, 3.0])),
        "Transformed(StudentT, Affine)": lambda: fd.Transformed(fd.StudentT(jnp.array([3.0]), jnp.array([0.3]), jnp.array([1.5])), fb.Affine(jnp.array([0.5]), jnp.array([2.0]))),
        "frozen StudentT": lambda: non_trainable(fd.StudentT(jnp.array(3.0), jnp.array(0.3), jnp.array(1.5))),
        # a frozen SUB-TREE: the wrapper's child is a Module that itself contains wrappers (not wrapper-in-wrapper, not frozen leaves)
        "Chain with a NonTrainable(Affine) sub-tree": lambda: fb.Chain([NonTrainable(fb.Affine(jnp.array([0.5, -1.0]), jnp.array([2.0, 0.5]))), fb.Loc(jnp.array([0.1, 0.2]))]),
        "MaskedAutoregressive with a NonTrainable conditioner sub-tree": lambda: eqx.tree_at(
            lambda m: m.masked_autoregressive_mlp, fb.MaskedAutoregressive(key, transformer=flows._affine_with_min_scale(), dim=2, nn_width=2, nn_depth=1), replace_fn=NonTrainable),
        "StudentT with a NonTrainable base_dist sub-tree": lambda: eqx.tree_at(lambda d: d.base_dist, fd.StudentT(jnp.array([3.0]), jnp.array([0.3]), jnp.array([1.5])), replace_fn=NonTrainable),
        "Lambda whose argument is a Module with wrappers": lambda: Lambda(lambda b: b, fb.Affine(jnp.array([0.5]), jnp.array([2.0]))),
    }
    return M


def ob_unwrap(name):
    """unwrap replaces every wrapper node, is idempotent"""
    import jax
    jax.config.update("jax_enable_x64", True)
    import jax.numpy as jnp
    import equinox as eqx
    from flowjax.wrappers import unwrap, AbstractUnwrappable
    from .. import jx
    from ..jx import Ctx, Interp
    from ..sym import f64, leaves_of, symarr, trace
    m = f64(_models()[name]())
    leaves, mk, paths = leaves_of(m)
    syms = [symarr(f"p{i}", l.shape) for i, l in enumerate(leaves)]
    ctx = Ctx()
    I = Interp(ctx)
    arrs = lambda t: jax.tree_util.tree_leaves(eqx.filter(t, eqx.is_array))
    jx.set_path([], ctx.facts)
    u1 = I.run(trace(lambda ls: arrs(unwrap(mk(ls))), leaves), *syms)
    u2 = I.run(trace(lambda ls: arrs(unwrap(unwrap(mk(ls)))), leaves), *syms)
    jx.set_path(None)
    remaining = [type(l).__name__ for l in jax.tree_util.tree_leaves(unwrap(m), is_leaf=lambda q: isinstance(q, AbstractUnwrappable)) if isinstance(l, AbstractUnwrappable)]
    idem = len(u1) == len(u2) and all(a.shape == b.shape and all(_same(x, y) for x, y in zip(a.ravel(), b.ravel())) for a, b in zip(u1, u2))
    nm = f"C12/{name}: unwrap leaves no wrapper node and unwrap(unwrap(t)) == unwrap(t) for all parameter values"
    if remaining or not idem:
        return [rec(nm, "violation", detail=f"wrappers remaining after unwrap: {remaining}; idempotent: {idem}", replay=dict(func="c12:replay_unwrap", kwargs=dict(name=name)))]
    return [rec(nm, "discharged", nontrivial=True, detail=f"{len(u1)} leaves compared term by term")]


def replay_unwrap(name):
    import jax
    from flowjax.wrappers import unwrap, AbstractUnwrappable
    m = _models()[name]()
    u = unwrap(m)
    rem = [l for l in jax.tree_util.tree_leaves(u, is_leaf=lambda q: isinstance(q, AbstractUnwrappable)) if isinstance(l, AbstractUnwrappable)]
    a, b = jax.tree_util.tree_leaves(u), jax.tree_util.tree_leaves(unwrap(u))
    bad = bool(rem) or len(a) != len(b) or any(not np.array_equal(np.asarray(x), np.asarray(y)) for x, y in zip(a, b))
    return bad, f"{len(rem)} wrappers remain; idempotent={not bad}"


def ob_vmapped():
    """a wrapper constructed under vmap unwraps to the stack of individually constructed-and-unwrapped ones"""
    import jax
    jax.config.update("jax_enable_x64", True)
    import jax.numpy as jnp
    import equinox as eqx
    import flowjax.bijections as fb
    from flowjax.wrappers import unwrap
    from .. import jx
    from ..jx import Ctx, Interp, set_path
    from ..sym import symarr, trace
    from ..bij import eq_goal
    out = []
    p = symarr("p", (3,))
    ctx = Ctx()
    I = Interp(ctx)
    assume = [v > -0.5 for v in p]
    set_path(assume, ctx.facts)
    vm = I.run(trace(lambda q: unwrap(eqx.filter_vmap(lambda r: fb.Affine(r, r + 0.5))(q)).scale, jnp.ones(3)), p)[0]
    one = [I.run(trace(lambda r: unwrap(fb.Affine(r, r + 0.5)).scale, jnp.ones(())), jx.oarr_s(p[i]))[0] for i in range(3)]
    set_path(None)
    st, m, where = eq_goal(ctx, assume, vm, np.array([o[()] for o in one], dtype=object), "vmapped")
    out.append(rec("C12/vmapped construction: unwrap(filter_vmap(Affine)(p)).scale[i] == unwrap(Affine(p[i])).scale for all p", "discharged" if st == "unsat" else "inconclusive",
                   detail="" if st == "unsat" else f"{st} at {where}"))
    # stacked WeightNormalization (what a vmapped construction produces: every array leaf gets a leading axis): unwrap of the stack must be
    # the stack of the individual unwraps, i.e. the norm is taken per row of EACH stacked matrix (WeightNormalization itself cannot be
    # constructed under filter_vmap in this environment, so the stacked module is assembled with tree_map(jnp.stack))
    from flowjax.wrappers import WeightNormalization
    from ..sym import leaves_of, f64
    ex3 = jnp.arange(1.0, 13.0).reshape(2, 2, 3)
    parts = [f64(WeightNormalization(ex3[i])) for i in range(2)]          # built concretely (outside any trace), leaves made symbolic below
    stacked_mod = jax.tree_util.tree_map(lambda *ls: jnp.stack(ls), *parts)
    lv_s, mk_s, _ = leaves_of(stacked_mod)
    lv_1, mk_1, _ = leaves_of(parts[0])
    syms_s = [symarr(f"L{i}", l.shape) for i, l in enumerate(lv_s)]
    ctx = Ctx()
    I = Interp(ctx)
    wsym = [sy for sy, l in zip(syms_s, lv_s) if l.shape == (2, 2, 3)][0]
    assume = [z3.Or(*[v != 0 for v in wsym[b_, r_]]) for b_ in range(2) for r_ in range(2)]
    set_path(assume, ctx.facts)
    try:
        st_ = I.run(trace(lambda ls: unwrap(mk_s(ls)), lv_s), *syms_s)[0]
        one_ = [I.run(trace(lambda ls: unwrap(mk_1(ls)), lv_1), *[sy[i] for sy in syms_s])[0] for i in range(2)]
        set_path(None)
        stw, mw, wherew = eq_goal(ctx, assume, st_, np.stack(one_), "stacked weightnorm")
        nmw = "C12/stacked WeightNormalization: unwrap(stack of wrappers)[i] == unwrap(wrapper i) for all leaf values (per-row norms of each stacked matrix)"
        if stw == "unsat":
            out.append(rec(nmw, "discharged"))
        else:
            ok_, msg_ = replay_stacked_weightnorm()
            out.append(rec(nmw, "violation" if ok_ else "inconclusive", detail=f"{stw} at {wherew} | {msg_}", replay=dict(func="c12:replay_stacked_weightnorm", kwargs={})))
    except jx.Unsupported as e:
        set_path(None)
        out.append(rec("C12/stacked WeightNormalization", "error", detail=f"unsupported: {e}"))
    # two levels of vmapped construction (Lambda wrappers of the spline)
    ctx = Ctx()
    I = Interp(ctx)
    set_path([], ctx.facts)
    mk2 = lambda: eqx.filter_vmap(lambda: eqx.filter_vmap(lambda: fb.RationalQuadraticSpline(knots=1, interval=2), axis_size=2)(), axis_size=2)()
    a = I.run(trace(lambda: unwrap(mk2()).x_pos), )[0]
    b = I.run(trace(lambda: unwrap(fb.RationalQuadraticSpline(knots=1, interval=2)).x_pos), )[0]
    set_path(None)
    ok = a.shape == (2, 2) + b.shape and all(_same(a[i, k][q], b[q]) for i in range(2) for k in range(2) for q in np.ndindex(b.shape))
    out.append(rec("C12/two levels of vmapped construction: every slice of the unwrapped knots equals the individually constructed spline's", "discharged" if ok else "violation",
                   detail=f"shape {a.shape}", nontrivial=False, replay=None if ok else dict(func="c12:replay_unwrap", kwargs=dict(name="vmapped RQS"))))
    return out


def replay_stacked_weightnorm():
    import jax
    import jax.numpy as jnp
    from flowjax.wrappers import WeightNormalization, unwrap
    w = jnp.asarray(np.random.RandomState(0).normal(size=(3, 2, 4)))
    parts = [WeightNormalization(w[i]) for i in range(3)]
    st = np.asarray(unwrap(jax.tree_util.tree_map(lambda *ls: jnp.stack(ls), *parts)))
    one = np.stack([np.asarray(unwrap(p)) for p in parts])
    bad = st.shape != one.shape or not np.allclose(st, one, rtol=1e-6, atol=1e-7)
    return bool(bad), f"unwrap of three stacked WeightNormalization wrappers differs from the stack of their unwraps by {float(np.max(np.abs(st - one))) if st.shape == one.shape else 'shape'}"


def ob_methods():
    """every bijection / distribution method gives the same result whether or not the caller unwrapped first (raw parameters symbolic)"""
    import jax
    jax.config.update("jax_enable_x64", True)
    import jax.numpy as jnp
    import jax.random as jr
    import flowjax.bijections as fb
    import flowjax.distributions as fd
    from flowjax.wrappers import unwrap
    from .. import jx
    from ..jx import Ctx, Interp
    from ..sym import f64, leaves_of, symarr, trace
    M = _models()
    out = []
    for name in ("Affine", "RQS (Lambda wrappers)", "Chain with frozen Loc", "coupling_flow", "Normal", "StudentT (df is a BijectionReparam)", "VmapMixture (weights are a Lambda)",
                 "Transformed(StudentT, Affine)", "frozen StudentT", "MaskedAutoregressive with a NonTrainable conditioner sub-tree"):
        m = f64(M[name]())
        mshape = tuple(unwrap(m).shape)     # attributes of a wrapped sub-tree are only available after unwrap
        leaves, mk, paths = leaves_of(m)
        syms = [symarr(f"p{i}", l.shape) for i, l in enumerate(leaves)]
        ctx = Ctx()
        I = Interp(ctx)
        bad = []
        n = 0
        if isinstance(unwrap(m), fd.AbstractDistribution):
            x = symarr("x", mshape)
            key = symarr("k", (2,), z3.IntSort())
            calls = [("log_prob", lambda d, a: d.log_prob(a), x, jnp.zeros(mshape)), ("sample", lambda d, a: d.sample(a), key, jr.PRNGKey(0)),
                     ("sample_and_log_prob", lambda d, a: d.sample_and_log_prob(a), key, jr.PRNGKey(0))]
        else:
            x = symarr("x", mshape)
            calls = [(mm, (lambda d, a, mm=mm: getattr(d, mm)(a)), x, jnp.zeros(mshape)) for mm in ("transform", "inverse", "transform_and_log_det", "inverse_and_log_det")]
        from ..bij import eq_goal
        from ..sym import all_ok
        strip = np.vectorize(lambda v: jx.split(v)[0], otypes=[object])
        jx.set_path([], ctx.facts)
        for label, f, arg, ex in calls:
            try:
                b = I.run(trace(lambda ls, v: f(unwrap(mk(ls)), v), leaves, ex), *syms, arg)
            except jx.Unsupported:
                raise
            except Exception as e:  # noqa
                bad.append(f"{label} (on the unwrapped object: {type(e).__name__})")
                continue
            try:
                a = I.run(trace(lambda ls, v: f(mk(ls), v), leaves, ex), *syms, arg)
            except jx.Unsupported:
                raise
            except Exception as e:  # noqa
                # the method works on the pre-unwrapped object but not on the wrapped one: the method did not unwrap what it uses
                bad.append(f"{label} (raises {type(e).__name__} on the wrapped object only)")
                continue
            n += 1
            for p_, q_ in zip(a, b):
                if p_.shape != q_.shape:
                    bad.append(label + " (shape)")
                    break
                if all(_same(u, w) for u, w in zip(p_.ravel(), q_.ravel())):
                    continue
                asm = [o for o in (all_ok(p_), all_ok(q_)) if jx.is_z(o)]
                st, m, where = eq_goal(ctx, asm, strip(p_), strip(q_), "methods")
                if st != "unsat":
                    bad.append(label)
                    break
        jx.set_path(None)
        nm = f"C12/{name}: {n} methods give the same result with and without a prior unwrap (all parameter values and inputs)"
        if bad:
            ok, msg = replay_methods(name)
            out.append(rec(nm, "violation" if ok else "inconclusive", detail=f"not proved equal: {bad} | replay: {msg}", replay=dict(func="c12:replay_methods", kwargs=dict(name=name))))
        else:
            out.append(rec(nm, "discharged", nontrivial=True))
    return out


def replay_methods(name):
    """every public method on the wrapped object vs on unwrap(object), real code"""
    import jax.numpy as jnp
    import jax.random as jr
    import flowjax.distributions as fd
    from flowjax.wrappers import unwrap
    m = _models()[name]()
    x = jnp.full(unwrap(m).shape, 0.37)
    k = jr.PRNGKey(3)
    if isinstance(unwrap(m), fd.AbstractDistribution):
        calls = {"log_prob": lambda d: d.log_prob(x), "sample": lambda d: d.sample(k), "sample_and_log_prob": lambda d: d.sample_and_log_prob(k)}
    else:
        calls = {mm: (lambda d, mm=mm: getattr(d, mm)(x)) for mm in ("transform", "inverse", "transform_and_log_det", "inverse_and_log_det")}
    bad = []
    for label, f in calls.items():
        try:
            b = f(unwrap(m))
        except Exception as e:  # noqa
            continue
        try:
            a = f(m)
        except Exception as e:  # noqa
            bad.append(f"{label} raises {type(e).__name__} on the wrapped object but works on unwrap(object)")
            continue
        import jax
        for u, w in zip(jax.tree_util.tree_leaves(a), jax.tree_util.tree_leaves(b)):
            if not np.allclose(np.asarray(u), np.asarray(w), equal_nan=True):
                bad.append(f"{label}: wrapped {np.asarray(u).tolist()} vs pre-unwrapped {np.asarray(w).tolist()}")
    return bool(bad), "; ".join(bad[:2]) or "wrapped and pre-unwrapped objects agree on the replay point"


def ob_frozen_grad():
    """leaves marked non-trainable receive exactly zero gradient (gradient jaxpr folds to the literal 0 for all inputs and parameters)"""
    import jax
    jax.config.update("jax_enable_x64", True)
    import jax.numpy as jnp
    import equinox as eqx
    import flowjax.bijections as fb
    import flowjax.distributions as fd
    from flowjax.wrappers import non_trainable, NonTrainable
    from .. import jx
    from ..jx import Ctx, Interp
    from ..sym import f64, leaves_of, symarr, trace
    out = []
    cases = {
        "Normal fully frozen": f64(non_trainable(fd.Normal(jnp.array([0.3, -0.2]), jnp.array([1.5, 0.7])))),
        "Transformed(Normal, Chain[Affine, frozen Loc])": f64(fd.Transformed(fd.Normal(jnp.array([0.3, -0.2]), jnp.array([1.5, 0.7])),
                                                                     fb.Chain([fb.Affine(jnp.array([0.5, -1.0]), jnp.array([2.0, 0.5])), non_trainable(fb.Loc(jnp.array([0.1, 0.2])))]))),
        "Normal with frozen loc only": f64(eqx.tree_at(lambda d: d.bijection.loc, fd.Normal(jnp.array([0.3, -0.2]), jnp.array([1.5, 0.7])), replace_fn=NonTrainable)),
    }
    for name, d in cases.items():
        leaves, mk, paths = leaves_of(d)
        syms = [symarr(f"p{i}", l.shape) for i, l in enumerate(leaves)]
        x = symarr("x", d.shape)
        ctx = Ctx()
        I = Interp(ctx)

        def g(ls, xv):
            gr = eqx.filter_grad(lambda dd, v: dd.log_prob(v))(mk(ls), xv)
            return jax.tree_util.tree_leaves(gr)
        grads = I.run(trace(g, leaves, jnp.zeros(d.shape)), *syms, x)
        gpaths = [jax.tree_util.keystr(p) for p, _ in jax.tree_util.tree_flatten_with_path(eqx.filter(d, eqx.is_inexact_array))[0]]
        frozen = [i for i, p in enumerate(gpaths) if ".tree" in p]
        bad = []
        for i in frozen:
            for v in grads[i].ravel():
                t = jx.split(v)[0]
                if jx.is_z(t) or t != 0:
                    bad.append(gpaths[i])
                    break
        moving = [i for i in range(len(grads)) if i not in frozen and any(jx.is_z(jx.split(v)[0]) for v in grads[i].ravel())]
        nm = f"C12/{name}: gradient of log_prob w.r.t. every frozen leaf is identically 0 ({len(frozen)} frozen of {len(grads)} leaves; {len(moving)} trainable leaves have non-trivial gradients)"
        out.append(rec(nm, "discharged" if not bad and frozen else "violation", detail=f"non-zero gradient terms at {bad}" if bad else "", nontrivial=True,
                       replay=None if not bad else dict(func="c12:replay_frozen", kwargs={})))
    return out


def replay_frozen():
    import jax
    import jax.numpy as jnp
    import equinox as eqx
    import flowjax.distributions as fd
    from flowjax.wrappers import non_trainable
    d = non_trainable(fd.Normal(jnp.array([0.3, -0.2]), jnp.array([1.5, 0.7])))
    g = eqx.filter_grad(lambda dd, v: dd.log_prob(v))(d, jnp.array([0.1, 0.2]))
    nz = [float(np.abs(np.asarray(l)).max()) for l in jax.tree_util.tree_leaves(g)]
    return any(v != 0 for v in nz), f"max |grad| per frozen leaf: {nz}"


def ob_conditioner():
    """frozen leaves are not parameterised by coupling / autoregressive conditioners"""
    import jax
    jax.config.update("jax_enable_x64", True)
    import jax.numpy as jnp
    import equinox as eqx
    from flowjax import flows
    from flowjax.utils import get_ravelled_pytree_constructor
    from flowjax.wrappers import unwrap, NonTrainable
    from .. import jx
    from ..jx import Ctx, Interp
    from ..sym import symarr, trace
    from .c09 import _vars_of
    tr = flows._affine_with_min_scale()
    constructor, n = get_ravelled_pytree_constructor(tr)
    p = symarr("rp", (n,))
    ctx = Ctx()
    I = Interp(ctx)

    def f(rp):
        t = constructor(rp)
        frozen = [l.tree for l in jax.tree_util.tree_leaves(t, is_leaf=lambda q: isinstance(q, NonTrainable)) if isinstance(l, NonTrainable)]
        return jax.tree_util.tree_leaves(frozen), jax.tree_util.tree_leaves(eqx.filter(unwrap(t), eqx.is_inexact_array))
    fro, allp = I.run(trace(f, jnp.zeros(n)), p)[: 1], None
    res = I.run(trace(f, jnp.zeros(n)), p)
    k = len(jax.tree_util.tree_leaves([l.tree for l in jax.tree_util.tree_leaves(tr, is_leaf=lambda q: isinstance(q, NonTrainable)) if isinstance(l, NonTrainable)]))
    frozen_terms, rest = res[:k], res[k:]
    dep = [v for a in frozen_terms for v in a.ravel() if _vars_of(v)]
    used = set()
    for a in rest:
        for v in a.ravel():
            used |= _vars_of(v)
    nm = f"C12/get_ravelled_pytree_constructor(default transformer): {k} frozen leaf/leaves independent of the conditioner output; all {n} ravelled parameters are used by trainable leaves"
    ok = not dep and len(used) == n and k >= 1
    return [rec(nm, "discharged" if ok else "violation", detail=f"frozen terms depending on conditioner output: {len(dep)}; parameters used: {sorted(used)}", nontrivial=True,
                replay=None if ok else dict(func="c12:replay_conditioner", kwargs={}))]


def replay_conditioner():
    import jax.numpy as jnp
    from flowjax import flows
    from flowjax.utils import get_ravelled_pytree_constructor
    from flowjax.wrappers import unwrap
    tr = flows._affine_with_min_scale()
    c, n = get_ravelled_pytree_constructor(tr)
    a = unwrap(c(jnp.zeros(n))).scale
    b = unwrap(c(jnp.ones(n) * 50.0)).scale
    lo = unwrap(c(-jnp.ones(n) * 50.0)).scale
    return bool(float(lo) < 0.0099), f"scale at very negative conditioner output = {float(lo)} (min_scale 0.01 must be a frozen floor)"


def ob_training_partition():
    """both real training loops hand exactly the trainable inexact leaves to `step`; frozen (NonTrainable) and non-floating leaves stay in `static`
    => they are identity terms after any number of steps with any optimiser"""
    import jax
    import jax.numpy as jnp
    import jax.random as jr
    import equinox as eqx
    import flowjax.bijections as fb
    import flowjax.distributions as fd
    import flowjax.train.data_fit as df
    import flowjax.train.variational_fit as vf
    from flowjax.wrappers import non_trainable, NonTrainable
    from ..pysym import rebind
    out = []
    dist = fd.Transformed(fd.Normal(jnp.array([0.3, -0.2]), jnp.array([1.5, 0.7])),
                          fb.Chain([fb.Affine(jnp.array([0.5, -1.0]), jnp.array([2.0, 0.5])), non_trainable(fb.Loc(jnp.array([0.1, 0.2]))), fb.Permute(jnp.array([1, 0]))]))
    seen = {}

    def step(params, static, *args, optimizer, opt_state, loss_fn, **kw):
        seen["params"], seen["static"] = params, static
        return params, opt_state, jnp.array(0.0)
    for label, run in (("fit_to_data", lambda: rebind(df.fit_to_data, step=step)(jr.PRNGKey(0), dist, jnp.zeros((4, 2)), max_epochs=1, batch_size=2, val_prop=0.5, show_progress=False)),
                       ("fit_to_variational_target", lambda: rebind(vf.fit_to_variational_target, step=step)(jr.PRNGKey(0), dist, lambda p, s, k: jnp.array(0.0), steps=1, show_progress=False))):
        seen.clear()
        try:
            run()
        except Exception as e:  # noqa
            out.append(rec(f"C12/{label}: parameter partition", "error", detail=f"{type(e).__name__}: {e}"))
            continue
        params, static = seen["params"], seen["static"]
        pl = jax.tree_util.tree_leaves(params, is_leaf=lambda q: isinstance(q, NonTrainable))
        frozen_in_params = [l for l in pl if isinstance(l, NonTrainable) and jax.tree_util.tree_leaves(l)]
        nonfloat_in_params = [l for l in jax.tree_util.tree_leaves(params) if not eqx.is_inexact_array(l)]
        n_train = len(jax.tree_util.tree_leaves(params))
        sl = jax.tree_util.tree_leaves(static, is_leaf=lambda q: isinstance(q, NonTrainable))
        frozen_in_static = [l for l in sl if isinstance(l, NonTrainable)]
        ok = not frozen_in_params and not nonfloat_in_params and len(frozen_in_static) >= 1 and n_train == 4
        nm = f"C12/{label}: the parameters handed to step contain no frozen and no non-floating leaf ({n_train} trainable leaves; {len(frozen_in_static)} frozen leaf kept in static)"
        out.append(rec(nm, "discharged" if ok else "violation", detail=f"frozen in params: {len(frozen_in_params)}, non-float in params: {len(nonfloat_in_params)}", nontrivial=False,
                       replay=None if ok else dict(func="c12:replay_training", kwargs=dict(which=label))))
    return out


def replay_training(which):
    """real loop, real step, optimiser whose update is non-zero at zero gradient (weight decay): frozen leaves must be bit-identical"""
    import jax
    import jax.numpy as jnp
    import jax.random as jr
    import optax
    import equinox as eqx
    import flowjax.bijections as fb
    import flowjax.distributions as fd
    from flowjax.train import fit_to_data, fit_to_variational_target
    from flowjax.train.losses import ElboLoss
    from flowjax.wrappers import non_trainable, NonTrainable
    dist = fd.Transformed(fd.Normal(jnp.array([0.3, -0.2]), jnp.array([1.5, 0.7])), fb.Chain([fb.Affine(jnp.array([0.5, -1.0]), jnp.array([2.0, 0.5])), non_trainable(fb.Loc(jnp.array([0.1, 0.2])))]))
    opt = optax.adamw(1e-2, weight_decay=0.5)
    if which == "fit_to_data":
        new, _ = fit_to_data(jr.PRNGKey(0), dist, jr.normal(jr.PRNGKey(1), (8, 2)), max_epochs=2, batch_size=4, optimizer=opt, show_progress=False)
    else:
        new, _ = fit_to_variational_target(jr.PRNGKey(0), dist, ElboLoss(lambda x: -jnp.sum(x ** 2), 4), steps=3, optimizer=opt, show_progress=False)
    get = lambda d: [np.asarray(l.tree) for l in jax.tree_util.tree_leaves(d, is_leaf=lambda q: isinstance(q, NonTrainable)) if isinstance(l, NonTrainable)]
    a, b = get(dist), get(new)
    moved = any(not np.array_equal(x, y) for x, y in zip(a, b))
    return moved, f"frozen leaf before {[x.tolist() for x in a]} after {[y.tolist() for y in b]}"


def ob_step():
    """one real training step (train_utils.step traced with SGD / Adam / AdamW): the loss returned is the loss of the PRE-update parameters and every
    returned parameter is (pre-update parameter + optimiser update); leaves absent from `params` cannot change"""
    import jax
    jax.config.update("jax_enable_x64", True)
    import jax.numpy as jnp
    import optax
    import equinox as eqx
    from flowjax.train.train_utils import step
    from .. import jx
    from ..jx import Ctx, Interp
    from ..sym import symarr, trace
    from ..bij import eq_goal
    out = []
    p = symarr("p", (2,))
    x = symarr("x", (2,))

    def loss_fn(params, static, xv):
        return jnp.sum((params["w"] * xv - static["c"]) ** 2)
    for oname, opt in (("sgd", optax.sgd(0.1)), ("adam", optax.adam(0.1)), ("adamw", optax.adamw(0.1, weight_decay=0.3))):
        ctx = Ctx()
        I = Interp(ctx)

        def f(pv, xv):
            params = {"w": pv, "frozen": None}
            static = {"c": 1.0}
            st = opt.init(params)
            newp, _, lv = step.__wrapped__(params, static, xv, optimizer=opt, opt_state=st, loss_fn=loss_fn) if hasattr(step, "__wrapped__") else step(params, static, xv, optimizer=opt, opt_state=st, loss_fn=loss_fn)
            return newp["w"], lv, (0 if newp["frozen"] is None else 1)
        try:
            neww, lv, fr = I.run(trace(f, jnp.ones(2), jnp.ones(2)), p, x)
        except Exception as e:  # noqa
            out.append(rec(f"C12/step with {oname}", "error", detail=f"{type(e).__name__}: {e}"))
            continue
        ref = jx.add(jx.mul(jx.sub(jx.mul(p[0], x[0]), 1), jx.sub(jx.mul(p[0], x[0]), 1)), jx.mul(jx.sub(jx.mul(p[1], x[1]), 1), jx.sub(jx.mul(p[1], x[1]), 1)))
        st, m, where = eq_goal(ctx, [], jx.oarr_s(lv[()]), jx.oarr_s(ref), "loss")
        okf = (not jx.is_sym(fr[()])) and fr[()] == 0
        ok = st == "unsat" and okf
        out.append(rec(f"C12/train_utils.step with {oname}: returned loss == loss at the PRE-update parameters; a leaf that is None in params stays None", "discharged" if ok else "inconclusive",
                       detail="" if ok else f"loss: {st}; frozen slot: {fr[()]}"))
    return out


def obligations(tier, seed):
    names = ["Affine", "RQS (Lambda wrappers)", "BNAF linear (WeightNormalization(Where(BijectionReparam)))", "tuple/list containers", "vmapped Affine", "vmapped RQS", "Chain with frozen Loc", "coupling_flow", "Normal",
             "Chain with a NonTrainable(Affine) sub-tree", "MaskedAutoregressive with a NonTrainable conditioner sub-tree", "StudentT with a NonTrainable base_dist sub-tree",
             "Lambda whose argument is a Module with wrappers"]
    tasks = [dict(name="unwrap/" + n, func="c12:ob_unwrap", kwargs=dict(name=n), cost=2) for n in names]
    tasks += [dict(name="vmapped", func="c12:ob_vmapped", kwargs={}, cost=3), dict(name="methods", func="c12:ob_methods", kwargs={}, cost=6),
              dict(name="frozen_grad", func="c12:ob_frozen_grad", kwargs={}, cost=4), dict(name="conditioner", func="c12:ob_conditioner", kwargs={}, cost=2),
              dict(name="partition", func="c12:ob_training_partition", kwargs={}, cost=4), dict(name="step", func="c12:ob_step", kwargs={}, cost=4)]
    return tasks
