"""C16 - training loops stop and select parameters as documented (E2: real loop bodies on symbolic loss histories)."""
from __future__ import annotations

import types

import z3

from ..core import rec
from .. import pysym
from ..pysym import Explorer, SNum, rebind

META = dict(
    files=["flowjax/train/data_fit.py", "flowjax/train/variational_fit.py", "flowjax/train/train_utils.py"],
    functions=["flowjax.train.data_fit.fit_to_data (real code object, re-bound)", "flowjax.train.variational_fit.fit_to_variational_target",
               "flowjax.train.train_utils.count_fruitless"],
    trusted_base=["vlib/pysym.py", "z3 5.1.0 (linear real/integer arithmetic)",
                  "stubs: step(params)=params+1 returning the scripted loss of the PRE-update parameters (documented contract of train_utils.step, checked in C12/C17), "
                  "jnp.argmin = first minimum index, one train and one validation batch per epoch, tqdm/optax/eqx.partition/combine no-ops"],
    assumptions=["loss values pairwise distinct reals (the property quantifies over orderings of distinct values)", "history length bounded by L"],
    bounds=dict(quick="L <= 5 epochs/steps, max_patience in 0..L, max_epochs/steps in 0..L, return_best in {True, False}", thorough="L <= 7"),
)


class Key:
    pass


class _jr:
    @staticmethod
    def split(key, num=2):
        n = num if isinstance(num, int) else num.__index__()
        return [Key() for _ in range(n)]

    @staticmethod
    def permutation(key, a):
        return a


class _jnp:
    @staticmethod
    def asarray(a):
        return a

    @staticmethod
    def array(a):
        return list(a)

    @staticmethod
    def argmin(a):
        # first index of the minimum (numpy / jax contract), computed with symbolic comparisons
        best = 0
        for i in range(1, len(a)):
            if a[i] < a[best]:
                best = i
        return types.SimpleNamespace(item=lambda: best)


class _eqx:
    partition = staticmethod(lambda d, *a, **k: (d, "static"))
    combine = staticmethod(lambda p, s: p)
    is_inexact_array = None


class _opt:
    def init(self, p):
        return None


class _optax:
    adam = staticmethod(lambda lr: _opt())


class _tq:
    def __init__(self, it, disable=True):
        self.it = it
        self.postfix = ""

    def __iter__(self):
        return iter(self.it)

    def set_postfix(self, d):
        pass

    def set_postfix_str(self, s):
        pass


class Loss:
    def __init__(self, v):
        self.v = v

    def item(self):
        return self.v


def isargmin(V, k, e):
    """V[k] is the minimum of V[:e] (values distinct)"""
    return z3.And(*[V[k] <= V[j] for j in range(e) if j != k]) if e > 1 else z3.BoolVal(True)


def ob_fit_to_data(L, return_best):
    import flowjax.train.data_fit as df
    import flowjax.train.train_utils as tu
    V = [z3.Real(f"v{i}") for i in range(L)]
    pat, mx = z3.Int("max_patience"), z3.Int("max_epochs")
    assume = [z3.Distinct(*V)] if L > 1 else []
    assume += [pat >= 0, pat <= L, mx >= 0, mx <= L]
    events = []

    def step(params, static, *batch, optimizer, opt_state, loss_fn, key):
        events.append(("train", params))
        return params + 1, opt_state, SNum(z3.RealVal(0))

    def loss_fn(params, static, *batch, key=None):
        events.append(("val", params))
        return SNum(V[params - 1])
    count_fruitless = rebind(tu.count_fruitless, jnp=_jnp)
    fit = rebind(df.fit_to_data, jnp=_jnp, jr=_jr, eqx=_eqx, optax=_optax, tqdm=_tq, step=step, count_fruitless=count_fruitless,
                 get_batches=lambda data, bs: tuple([d] for d in data), train_val_split=lambda key, data, val_prop=0.1: (list(data), list(data)))
    name = f"C16/fit_to_data L<={L} return_best={return_best}"

    def harness(ex):
        events.clear()
        ret, losses = fit(Key(), 0, "x", loss_fn=loss_fn, max_epochs=SNum(mx), max_patience=SNum(pat), batch_size=1, val_prop=0.5,
                          optimizer=_opt(), return_best=return_best, show_progress=False)
        return ret, losses, list(events)
    ex = Explorer(assume)
    paths = 0
    for pc, (ret, losses, ev) in ex.run_all(harness):
        paths += 1
        E = len(losses["val"])
        post = []
        post.append(z3.BoolVal(len(losses["train"]) == E))
        post.append(z3.BoolVal(all(isinstance(l, SNum) for l in losses["val"])))
        post += [l.e == V[i] for i, l in enumerate(losses["val"])]
        post.append(z3.BoolVal(sum(1 for k, _ in ev if k == "train") == E and sum(1 for k, _ in ev if k == "val") == E))
        post.append(z3.IntVal(E) <= mx)

        def stop(e):
            return z3.Or(*[z3.And(isargmin(V, k, e), (e - 1 - k) > pat) for k in range(e)]) if e >= 1 else z3.BoolVal(False)
        for e in range(1, E):
            post.append(z3.Not(stop(e)))             # never earlier
        post.append(z3.Or(z3.IntVal(E) == mx, stop(E)))  # stops exactly when documented
        if return_best:
            post.append(z3.Or(*[z3.And(isargmin(V, k, E), z3.IntVal(ret) == k + 1) for k in range(E)]) if E >= 1 else z3.BoolVal(ret == 0))
        else:
            post.append(z3.BoolVal(ret == E))
        ok, m = ex.valid(pc, z3.And(*post))
        if ok is not True:
            return _fail(name, ok, m, ex, paths, dict(kind="data", L=L, return_best=return_best), f"epochs run {E}, returned parameters of epoch {ret}")
    return [rec(name, "discharged", queries=ex.queries, solver_s=ex.solver_s, paths=paths, vacuity=paths > 0,
                sample=dict(paths=paths, post="E<=max_epochs; no stop condition before E; E==max_epochs or stop(E); one train+val loss per epoch; returned = argmin val (return_best) / last"))]


def ob_fit_vi(L, return_best):
    import flowjax.train.variational_fit as vf
    V = [z3.Real(f"v{i}") for i in range(L)]
    steps = z3.Int("steps")
    assume = ([z3.Distinct(*V)] if L > 1 else []) + [steps >= 0, steps <= L]
    events = []

    def step(params, static, key, *, optimizer, opt_state, loss_fn):
        events.append(params)
        return params + 1, opt_state, Loss(SNum(V[params]))
    fit = rebind(vf.fit_to_variational_target, jr=_jr, eqx=_eqx, optax=_optax, tqdm=_tq, step=step)
    name = f"C16/fit_to_variational_target L<={L} return_best={return_best}"

    def harness(ex):
        events.clear()
        ret, losses = fit(Key(), 0, "loss_fn", steps=SNum(steps), optimizer=_opt(), return_best=return_best, show_progress=False)
        return ret, losses, list(events)
    ex = Explorer(assume)
    paths = 0
    for pc, (ret, losses, ev) in ex.run_all(harness):
        paths += 1
        n = len(losses)
        post = [z3.IntVal(n) == steps, z3.BoolVal(len(ev) == n), z3.BoolVal(all(isinstance(l, SNum) and l.e.eq(V[i]) for i, l in enumerate(losses)))]
        if return_best:
            # the parameters AT WHICH the minimum recorded loss was evaluated (loss i belongs to parameters i)
            post.append(z3.Or(*[z3.And(isargmin(V, k, n), z3.IntVal(ret) == k) for k in range(n)]) if n >= 1 else z3.BoolVal(ret == 0))
        else:
            post.append(z3.BoolVal(ret == n))
        ok, m = ex.valid(pc, z3.And(*post))
        if ok is not True:
            return _fail(name, ok, m, ex, paths, dict(kind="vi", L=L, return_best=return_best), f"{n} steps, returned parameters index {ret}")
    return [rec(name, "discharged", queries=ex.queries, solver_s=ex.solver_s, paths=paths, vacuity=paths > 0,
                sample=dict(paths=paths, post="len(losses)==steps; loss i evaluated at parameters i; returned = argmin (return_best) / steps"))]


def _fail(name, ok, m, ex, paths, kw, what):
    wit = {}
    if m is not None:
        for d in m.decls():
            v = m[d]
            try:
                wit[str(d)] = float(v.as_fraction()) if z3.is_rational_value(v) else int(v.as_long())
            except Exception:
                wit[str(d)] = str(v)
    if ok is False:
        rp_ok, msg = replay(witness=wit, **kw)
        if rp_ok:
            return [rec(name, "violation", detail=f"{what}; witness {wit}; replay on the real loop: {msg}", queries=ex.queries, solver_s=ex.solver_s, paths=paths,
                        replay=dict(func="c16:replay", kwargs=dict(witness=wit, **kw)))]
        return [rec(name, "inconclusive", detail=f"model {wit} did not reproduce on the real loop: {msg}", queries=ex.queries, solver_s=ex.solver_s)]
    return [rec(name, "inconclusive", detail="solver returned unknown", queries=ex.queries, solver_s=ex.solver_s)]


def replay(kind, L, return_best, witness):
    """runs the REAL training loop (real step, real optax SGD counting optimiser, real jax) with the witness's scripted losses"""
    import jax
    import jax.numpy as jnp
    import jax.random as jr
    import optax
    import equinox as eqx
    from flowjax.train.data_fit import fit_to_data
    from flowjax.train.variational_fit import fit_to_variational_target
    V = [float(witness.get(f"v{i}", 0.0)) for i in range(L)]
    table = jnp.asarray(V + [1e9])
    # counting "optimiser": every update adds exactly 1 to the scalar parameter
    counting = optax.GradientTransformation(lambda p: (), lambda g, s, params=None: (jax.tree_util.tree_map(lambda x: jnp.ones_like(x), g), s))
    if kind == "vi":
        steps = int(witness.get("steps", L))

        def loss_fn(params, static, key):
            i = jnp.clip(jnp.round(jax.lax.stop_gradient(params)).astype(int), 0, L)
            return table[i] + 0.0 * params
        ret, losses = fit_to_variational_target(jr.PRNGKey(0), jnp.array(0.0), loss_fn, steps=steps, optimizer=counting, return_best=return_best, show_progress=False)
        ret = int(round(float(ret)))
        n = len(losses)
        exp = (min(range(n), key=lambda k: V[k]) if n else 0) if return_best else n
        bad = (n != steps) or (ret != exp) or any(abs(losses[i] - V[i]) > 1e-6 for i in range(n))
        return bad, f"losses={losses} steps={steps} returned params index {ret}, documented {exp}"
    mxe, pat = int(witness.get("max_epochs", L)), int(witness.get("max_patience", 0))

    def loss_fn(params, static, x, key=None):
        i = jnp.clip(jnp.round(jax.lax.stop_gradient(params)).astype(int) - 1, 0, L)
        return table[i] + 0.0 * params
    ret, losses = fit_to_data(jr.PRNGKey(0), jnp.array(0.0), jnp.zeros((2, 1)), loss_fn=loss_fn, max_epochs=mxe, max_patience=pat, batch_size=1, val_prop=0.5,
                              optimizer=counting, return_best=return_best, show_progress=False)
    ret = int(round(float(ret)))
    val = [float(v) for v in losses["val"]]
    E = len(val)
    # reference from the docstrings
    exp_E = mxe
    for e in range(1, mxe + 1):
        k = min(range(e), key=lambda j: V[j])
        if k != e - 1 and (e - 1 - k) > pat:
            exp_E = e
            break
    exp_ret = ((min(range(exp_E), key=lambda j: V[j]) + 1) if exp_E else 0) if return_best else exp_E
    bad = (E != exp_E) or (ret != exp_ret) or len(losses["train"]) != E
    return bad, f"val losses={val} max_epochs={mxe} max_patience={pat}: ran {E} epochs (documented {exp_E}), returned parameters of epoch {ret} (documented {exp_ret})"


def obligations(tier, seed):
    L = 5 if tier == "quick" else 7
    tasks = []
    for rb in (True, False):
        for l in range(1, L + 1):
            tasks.append(dict(name=f"data/L{l}/rb{rb}", func="c16:ob_fit_to_data", kwargs=dict(L=l, return_best=rb), cost=2 ** l))
            tasks.append(dict(name=f"vi/L{l}/rb{rb}", func="c16:ob_fit_vi", kwargs=dict(L=l, return_best=rb), cost=2 ** l / 4))
    return tasks
