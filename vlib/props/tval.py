"""Translator validation obligations (shared by C01/C02/C18): the interpreter against JAX's own concrete execution."""
from __future__ import annotations

import numpy as np

from ..core import rec


def _perturb(spec, rng):
    import jax.numpy as jnp
    out = []
    for nm, p in zip(spec.P_names, spec.P_ex):
        a = np.asarray(p, dtype=float).copy()
        if nm in ("max_val", "linear_grad", "intercept"):
            out.append(jnp.asarray(a))
            continue
        if "pos" in nm and a.ndim == 1 and a.size > 2:
            a[1:-1] += 0.2 * rng.uniform(-1, 1, size=a.size - 2)
        elif "triangular" in nm or "permutation" in nm:
            a = a * (1 + 0.1 * rng.uniform(-1, 1, size=a.shape))
        else:
            a = a * (1 + 0.2 * rng.uniform(-1, 1, size=a.shape)) + (0.05 * rng.uniform(-1, 1, size=a.shape)) * (a != 0)
        out.append(jnp.asarray(a))
    return out


def ob_validate(names, grads=False, seed=0):
    import jax
    jax.config.update("jax_enable_x64", True)
    import jax.numpy as jnp
    from .. import zoo, selfcheck, jx
    rng = np.random.RandomState(100 + seed)
    n = 0
    worst = []
    for nm in names:
        spec = zoo.get(nm)
        cond = spec.cond_shape is not None
        P = _perturb(spec, rng) if spec.tags.isdisjoint({"nopert"}) else list(spec.P_ex)
        try:
            P = [jnp.asarray(p) for p in spec.replay_P([np.asarray(p) for p in P])]
        except Exception:  # noqa
            P = list(spec.P_ex)
        for meth in ("transform_and_log_det", "inverse_and_log_det"):
            if meth.startswith("inverse") and not spec.has_inverse:
                continue
            f = spec.fn(meth)
            g = (lambda P_, x, c: f(P_, x, c)) if cond else (lambda P_, x: f(P_, x))
            for scale in (0.4, 1.7, 3.5):
                x = jnp.asarray(rng.uniform(-1, 1, size=spec.shape) * scale)
                if not spec.onto and meth.startswith("inverse"):
                    x = jnp.abs(x) * 0.5 + 0.05 if "Tanh" not in spec.name else jnp.clip(x, -0.9, 0.9)
                if meth.startswith("transform") and spec._x_cases is not None and "Invert(Exp" in spec.name:
                    x = jnp.abs(x) + 0.05
                args = [P, x] + ([spec.c_ex + 0.3] if cond else [])
                try:
                    ok, msg = selfcheck.compare(g, args)
                except jx.Unsupported as e:
                    return [rec(f"translator validation/{spec.name}.{meth}", "error", detail=f"unsupported: {e}")]
                n += 1
                if not ok:
                    return [rec(f"translator validation/{spec.name}.{meth}", "error", detail=f"the encoding disagrees with JAX's concrete execution at x={np.asarray(x).tolist()}: {msg}")]
        if grads and spec.has_inverse:
            from . import c18
            lp = c18._lp_fn(spec, "fwd")
            for scale in (0.4, 2.5):
                x = jnp.asarray(rng.uniform(-1, 1, size=spec.shape) * scale)
                if not spec.onto:
                    x = jnp.abs(x) * 0.4 + 0.05
                args = [P, x] + ([spec.c_ex + 0.3] if cond else [])
                gfn = (lambda P_, x_, c_: jax.value_and_grad(lp, argnums=(0, 1))(P_, x_, c_)) if cond else (lambda P_, x_: jax.value_and_grad(lp, argnums=(0, 1))(P_, x_))
                try:
                    ok, msg = selfcheck.compare(gfn, args)
                except jx.Unsupported as e:
                    return [rec(f"translator validation/grad log_prob {spec.name}", "error", detail=f"unsupported: {e}")]
                n += 1
                if not ok:
                    return [rec(f"translator validation/grad log_prob {spec.name}", "error", detail=f"the encoding disagrees with JAX at x={np.asarray(x).tolist()}: {msg}")]
    return [rec(f"translator validation: interpreter == JAX concrete execution on {n} (instance, method, point) triples [{', '.join(names[:6])}{'...' if len(names) > 6 else ''}]",
                "discharged", nontrivial=False, detail="z3 terms evaluated with mpmath at the exact rationals of float64 inputs; tolerance 1e-8 relative")]
