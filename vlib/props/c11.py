"""C11 - constrained parameters stay valid for every unconstrained value (E1, raw mode: the constraint functions are in the jaxpr)."""
from __future__ import annotations

from fractions import Fraction

import numpy as np
import z3

from ..core import rec

META = dict(
    files=["flowjax/wrappers.py", "flowjax/bijections/affine.py", "flowjax/bijections/rational_quadratic_spline.py", "flowjax/bijections/planar.py",
           "flowjax/distributions.py", "flowjax/bijections/utils.py", "flowjax/flows.py"],
    functions=["flowjax.wrappers.unwrap over BijectionReparam / Lambda / Where / WeightNormalization (traced)", "_real_to_increasing_on_interval", "_UnconditionalPlanar.get_act_scale",
               "constructors of Affine, Scale, TriangularAffine, StudentT, Exponential, Uniform, VmapMixture, Permute with symbolic arguments (incl. their eqx.error_if predicates)"],
    trusted_base=["vlib/jx.py (incl. the recorded error_if predicates)", "z3 5.1.0", "exp/log/sqrt laws of DESIGN section 8"],
    assumptions=["raw parameters are arbitrary finite reals (exact arithmetic: float underflow of softplus outside the claim)", "cholesky is concrete at construction (trusted)"],
    bounds=dict(quick="vectors of length <= 3, K <= 2 knots with symbolic interval ends, planar d<=2, mixtures with 2-3 components, permutations of <= 3 elements",
                thorough="K <= 3, length <= 4"),
)


def _env():
    import jax
    jax.config.update("jax_enable_x64", True)
    import jax.numpy as jnp
    import equinox as eqx
    from .. import jx
    from ..jx import Ctx, Interp, set_path, check, split, toreal, toz
    from ..sym import symarr, trace, leaves_of, f64
    return jax, jnp, eqx, jx, Ctx, Interp, set_path, check, split, toreal, toz, symarr, trace, leaves_of, f64


def _prove(name, ctx, assume, goals, check, detail_ok=""):
    """goals: list of (label, z3 bool)"""
    nq = 0
    for lab, g in goals:
        st, m = check(ctx, assume, g, name=name + ":" + lab)
        nq += 1
        if st != "unsat":
            return rec(name, "inconclusive" if st != "sat" else "candidate", detail=f"{lab}: {st} {m.as_dict() if m else ''}", queries=nq, model=(m.as_dict() if m else None), label=lab)
    return rec(name, "discharged", queries=nq, vacuity=True, detail=detail_ok)


def _finish(r, replay_fn, **kw):
    """a `sat` answer is only a candidate: replay the model on the real code"""
    if r["status"] != "candidate":
        r.pop("model", None)
        r.pop("label", None)
        return r
    ok, msg = replay_fn(r.get("model") or {}, **kw)
    r["status"] = "violation" if ok else "inconclusive"
    r["detail"] += " | replay: " + msg
    r["replay"] = dict(func="c11:" + replay_fn.__name__, kwargs=dict(model=r.pop("model", None), **kw))
    r.pop("label", None)
    return r


def _ok_and(vals, pred, jx, toz, toreal, split):
    out = []
    for k, v in enumerate(vals):
        t, o, i = split(v)
        out.append((f"elem{k}", z3.And(toz(jx.band(o, i == 0)), pred(toreal(t)))))
    return out


# ---------------------------------------------------------------------------------------------------------
def ob_positive_scales():
    """unwrap of SoftPlus-reparameterised parameters is > 0 for every raw value (Affine/Scale scale, TriangularAffine diagonal, StudentT df,
    flows' default transformer scale >= min_scale)"""
    jax, jnp, eqx, jx, Ctx, Interp, set_path, check, split, toreal, toz, symarr, trace, leaves_of, f64 = _env()
    import flowjax.bijections as fb
    import flowjax.distributions as fd
    from flowjax import flows
    from flowjax.wrappers import unwrap
    out = []
    cases = [
        ("Affine.scale", fb.Affine(jnp.zeros(2), jnp.ones(2)), lambda m: m.scale, lambda t: t > 0),
        ("Scale.scale", fb.Scale(jnp.ones(2)), lambda m: m.scale, lambda t: t > 0),
        ("StudentT.df", fd.StudentT(jnp.array([2.0, 3.0])), lambda m: m.base_dist.df, lambda t: t > 0),
        ("default flow transformer scale > the frozen min_scale leaf", flows._affine_with_min_scale(), lambda m: m.scale, "minscale"),
        ("Exponential scale (1/rate)", fd.Exponential(jnp.array([2.0, 0.5])), lambda m: m.bijection.scale, lambda t: t > 0),
    ]
    for label, mod, getter, pred in cases:
        mod = f64(mod)
        leaves, mk, paths = leaves_of(mod)
        syms = [symarr(f"raw{i}", l.shape) for i, l in enumerate(leaves)]
        ctx = Ctx()
        I = Interp(ctx)
        set_path([], ctx.facts)
        j = trace(lambda ls: getter(unwrap(mk(ls))), leaves)
        val = I.run(j, *syms)[0]
        set_path(None)
        name = f"C11/{label} stays valid for every raw value"
        if pred == "minscale":
            frozen = [sy for sy, pth in zip(syms, paths) if "bijections[1].loc" in pth][0][()]
            pred = (lambda t, frozen=frozen: t > frozen)
        r = _prove(name, ctx, [], _ok_and(list(np.asarray(val, dtype=object).ravel()), pred, jx, toz, toreal, split), check)
        out.append(_finish(r, replay_generic, what=label))
    # TriangularAffine: diagonal > 0, masked triangle == 0, kept triangle == raw entries
    for lower in (True, False):
        mod = f64(fb.TriangularAffine(jnp.zeros(3), jnp.eye(3) * 2 + 0.3, lower=lower))
        leaves, mk, paths = leaves_of(mod)
        syms = [symarr(f"raw{i}", l.shape) for i, l in enumerate(leaves)]
        ctx = Ctx()
        I = Interp(ctx)
        set_path([], ctx.facts)
        T = I.run(trace(lambda ls: unwrap(mk(ls)).triangular, leaves), *syms)[0]
        set_path(None)
        goals = []
        for i in range(3):
            for k in range(3):
                t, o, inf = split(T[i, k])
                if i == k:
                    goals.append((f"diag{i}", z3.And(toz(jx.band(o, inf == 0)), toreal(t) > 0)))
                elif (k > i) if lower else (k < i):
                    goals.append((f"zero{i}{k}", toreal(t) == 0 if jx.is_z(t) else z3.BoolVal(t == 0)))
        name = f"C11/TriangularAffine(lower={lower}): diagonal > 0 and masked triangle == 0 for every raw value"
        out.append(_finish(_prove(name, ctx, [], goals, check), replay_generic, what=f"tri{lower}"))
    return out


def replay_generic(model, what):
    """the real module with its raw (unconstrained) leaves set to the model's values (leaves not mentioned keep their initial value);
    the constrained quantity is read after unwrap"""
    import jax
    jax.config.update("jax_enable_x64", True)
    import jax.numpy as jnp
    import flowjax.bijections as fb
    import flowjax.distributions as fd
    from flowjax import flows
    from flowjax.wrappers import unwrap
    from ..sym import f64, leaves_of
    mods = {
        "Affine.scale": (lambda: fb.Affine(jnp.zeros(2), jnp.ones(2)), lambda m: m.scale, "pos"),
        "Scale.scale": (lambda: fb.Scale(jnp.ones(2)), lambda m: m.scale, "pos"),
        "StudentT.df": (lambda: fd.StudentT(jnp.array([2.0, 3.0])), lambda m: m.base_dist.df, "pos"),
        "default flow transformer scale > the frozen min_scale leaf": (lambda: flows._affine_with_min_scale(), lambda m: m.scale, "pos"),
        "Exponential scale (1/rate)": (lambda: fd.Exponential(jnp.array([2.0, 0.5])), lambda m: m.bijection.scale, "pos"),
        "triTrue": (lambda: fb.TriangularAffine(jnp.zeros(3), jnp.eye(3) * 2 + 0.3, lower=True), lambda m: m.triangular, "tril"),
        "triFalse": (lambda: fb.TriangularAffine(jnp.zeros(3), jnp.eye(3) * 2 + 0.3, lower=False), lambda m: m.triangular, "triu"),
    }
    if what not in mods:
        return False, "no concrete replay for this obligation (model kept in the evidence)"
    mkmod, getter, kind = mods[what]
    mod = f64(mkmod())
    leaves, mk, paths = leaves_of(mod)
    new = []
    for i, l in enumerate(leaves):
        a = np.asarray(l, dtype=float).copy()
        for idx in np.ndindex(a.shape):
            key = f"raw{i}" + "".join(f"_{q}" for q in idx)
            if key in (model or {}):
                v = float(model[key])
                if abs(v) > 50:
                    return False, "model outside the float-safe box |raw| <= 50"
                a[idx] = v
        new.append(jnp.asarray(a))
    val = np.asarray(getter(unwrap(mk(new))), dtype=float)
    if kind == "pos":
        bad = not np.all(val > 0)
    else:
        d = np.diag(val)
        off = np.triu(val, 1) if kind == "tril" else np.tril(val, -1)
        bad = (not np.all(d > 0)) or bool(np.any(off != 0))
    return bool(bad), f"raw leaves {[np.asarray(x).tolist() for x in new]} give the constrained value {val.tolist()}"


def ob_spline(K=2):
    """knots strictly increasing from interval[0] to interval[1], derivatives >= min_derivative, for every raw value and every interval A<B"""
    jax, jnp, eqx, jx, Ctx, Interp, set_path, check, split, toreal, toz, symarr, trace, leaves_of, f64 = _env()
    from flowjax.bijections.rational_quadratic_spline import _real_to_increasing_on_interval, RationalQuadraticSpline
    from flowjax.wrappers import unwrap
    out = []
    A, B = z3.Reals("A B")
    raw = symarr("raw", (K,))
    # softmax_adjust is compared by a python `if` in the real code, hence static: checked for 0, the default 0.01 and 1
    # cases over which raw entry is the maximum (softmax subtracts the max): the decider resolves them under each case
    for mx, adjv in [(m_, a_) for m_ in range(K) for a_ in (0.0, 0.01, 1.0)]:
        ctx = Ctx()
        I = Interp(ctx)
        assume = [A < B] + [raw[mx] >= raw[k] for k in range(K) if k != mx]
        set_path(assume, ctx.facts)
        j = trace(lambda r_, a_, b_: _real_to_increasing_on_interval(r_, (a_, b_), adjv), jnp.zeros(K), jnp.array(-1.0), jnp.array(2.0))
        try:
            pos = I.run(j, raw, jx.oarr_s(A), jx.oarr_s(B))[0]
        except Exception as e:  # noqa: softmax_adjust < 0 check is a python `if` on a tracer
            pos = None
            err = e
        set_path(None)
        name = f"C11/spline knots (K={K}, max raw at {mx}, softmax_adjust={adjv}): A = p0 < p1 < ... < p_last = B for every raw value and interval A<B"
        if pos is None:
            out.append(rec(name, "error", detail=f"{type(err).__name__}: {err}"))
            continue
        ts = [toreal(split(v)[0]) for v in pos]
        oks = [jx.band(split(v)[1], split(v)[2] == 0) for v in pos]
        goals = [("defined", z3.And(*[toz(o) for o in oks])), ("first==A", ts[0] == A), ("last==B", ts[-1] == B)]
        goals += [(f"p{i}<p{i + 1}", ts[i] < ts[i + 1]) for i in range(len(ts) - 1)]
        # documented purpose of softmax_adjust: a minimum bin width of adj/(n(1+adj)) of the interval (the two end bins are halves of one bin)
        fl = Fraction(adjv) / (K * (1 + Fraction(adjv))) / 2
        goals += [(f"width{i}>=floor", ts[i + 1] - ts[i] >= z3.RealVal(str(fl)) * (B - A) * z3.RealVal("0.999999")) for i in range(len(ts) - 1)]
        out.append(_finish(_prove(name, ctx, assume, goals, check), replay_knots, K=K, adj=adjv))
    # derivatives >= min_derivative through the real wrapper, for the default and a non-default floor (the raw initialisation and the
    # parameterisation must use the SAME constructor argument)
    for mdv in (None, 0.125):
        kw = {} if mdv is None else dict(min_derivative=mdv)
        b = f64(RationalQuadraticSpline(knots=K, interval=(-1, 3), **kw))
        leaves, mk, paths = leaves_of(b)
        syms = [symarr(f"raw{i}", l.shape) for i, l in enumerate(leaves)]
        ctx = Ctx()
        I = Interp(ctx)
        set_path([], ctx.facts)
        d = I.run(trace(lambda ls: unwrap(mk(ls)).derivatives, leaves), *syms)[0]
        set_path(None)
        md = Fraction(float(b.min_derivative))
        name = f"C11/spline derivatives (K={K}) >= min_derivative for every raw value" + ("" if mdv is None else f" [min_derivative={mdv}]")
        out.append(_finish(_prove(name, ctx, [], _ok_and(list(d), lambda t: t >= z3.RealVal(str(md)), jx, toz, toreal, split), check), replay_spline_deriv, K=K, min_derivative=mdv))
    return out


def replay_spline_deriv(model, K, min_derivative=None):
    """real spline with the requested floor; raw leaves from the model (and very negative raw derivatives): derivatives >= min_derivative"""
    import jax
    jax.config.update("jax_enable_x64", True)
    import jax.numpy as jnp
    from flowjax.bijections import RationalQuadraticSpline
    from flowjax.wrappers import unwrap
    from ..sym import f64, leaves_of
    kw = {} if min_derivative is None else dict(min_derivative=min_derivative)
    b = f64(RationalQuadraticSpline(knots=K, interval=(-1, 3), **kw))
    floor = float(b.min_derivative)
    leaves, mk, paths = leaves_of(b)
    bad = []
    for use_model in (True, False):
        new = []
        for i, l in enumerate(leaves):
            a = np.asarray(l, dtype=float).copy()
            for idx in np.ndindex(a.shape):
                key = f"raw{i}" + "".join(f"_{q}" for q in idx)
                a[idx] = min(50.0, max(-50.0, float(model[key]))) if use_model and key in (model or {}) else (a[idx] if use_model else -40.0)
            new.append(jnp.asarray(a))
        val = np.asarray(unwrap(mk(new)).derivatives, dtype=float)
        if not np.all(val >= floor * (1 - 1e-9)):
            bad.append(f"raw leaves {[np.asarray(x).tolist() for x in new]} give derivatives {val.tolist()} below min_derivative={floor}")
    return bool(bad), "; ".join(bad[:1]) or f"derivatives stay >= {floor} on the replay points"


def replay_knots(model, K, adj=0.01):
    import jax.numpy as jnp
    from flowjax.bijections.rational_quadratic_spline import _real_to_increasing_on_interval
    raw = jnp.asarray([float(model.get(f"raw_{i}", 0.0)) for i in range(K)])
    A, B = float(model.get("A", -1.0)), float(model.get("B", 1.0))
    if not (A < B) or adj < 0 or max(abs(float(v)) for v in raw) > 50:
        return False, "model outside the float-safe box"
    p = np.asarray(_real_to_increasing_on_interval(raw, (A, B), adj))
    fl = adj / (K * (1 + adj)) / 2 * (B - A)
    bad = not (abs(p[0] - A) < 1e-9 and abs(p[-1] - B) < 1e-9 and np.all(np.diff(p) > 0) and np.all(np.diff(p) >= fl * 0.999))
    return bad, f"raw={raw.tolist()} interval=({A},{B}) softmax_adjust={adj}: knots {p.tolist()}"


def ob_mixture(n=2):
    """mixture weights stay normalised for every raw value: sum(exp(log_normalized_weights)) == 1; constructor reproduces weights up to normalisation"""
    jax, jnp, eqx, jx, Ctx, Interp, set_path, check, split, toreal, toz, symarr, trace, leaves_of, f64 = _env()
    import flowjax.distributions as fd
    from flowjax.wrappers import unwrap
    out = []
    dist = eqx.filter_vmap(fd.Normal)(jnp.arange(float(n)))
    mix = f64(fd.VmapMixture(dist, jnp.arange(1.0, n + 1)))
    leaves, mk, paths = leaves_of(mix)
    widx = [i for i, p in enumerate(paths) if "log_normalized_weights" in p]
    raw = symarr("raw", (n,))
    for mx in range(n):
        ctx = Ctx()
        I = Interp(ctx)
        assume = [raw[mx] >= raw[k] for k in range(n) if k != mx]
        set_path(assume, ctx.facts)

        def f(r_):
            ls = list(leaves)
            ls[widx[0]] = r_
            return unwrap(mk(ls)).log_normalized_weights
        lw = I.run(trace(f, jnp.zeros(n)), raw)[0]
        set_path(None)
        tot = Fraction(0)
        for v in lw:
            tot = jx.add(tot, jx.sexp(ctx, v))
        t, o, i = split(tot)
        name = f"C11/mixture weights (n={n}, max raw at {mx}): sum(exp(log_normalized_weights)) == 1 for every raw value"
        out.append(_finish(_prove(name, ctx, assume, [("defined", toz(jx.band(o, i == 0))), ("sum==1", toreal(t) == 1)], check), replay_generic, what="mixture"))
    # constructor: exp(log_normalized_weights_i) == w_i / sum(w) for positive weights; error_if predicate <=> some w <= 0
    w = symarr("w", (n,))
    ctx = Ctx()
    I = Interp(ctx)
    assume = [v > 0 for v in w] + [w[0] >= w[k] for k in range(1, n)]
    set_path(assume, ctx.facts)
    lw = I.run(trace(lambda w_: unwrap(fd.VmapMixture(dist, w_)).log_normalized_weights, jnp.ones(n)), w)[0]
    set_path(None)
    sw = sum((toreal(v) for v in w), z3.RealVal(0))
    goals = []
    for k in range(n):
        e = jx.sexp(ctx, lw[k])
        t, o, i = split(e)
        goals.append((f"w{k}", z3.And(toz(jx.band(o, i == 0)), toreal(t) * sw == toreal(w[k]))))
    name = f"C11/VmapMixture constructor (n={n}): weights reproduced up to normalisation for all positive weights"
    out.append(_finish(_prove(name, ctx, assume, goals, check), replay_generic, what="mixture ctor"))
    # rejection predicate
    ctx = Ctx()
    I = Interp(ctx)
    set_path([], ctx.facts)
    try:
        I.run(trace(lambda w_: unwrap(fd.VmapMixture(dist, w_)).log_normalized_weights, jnp.ones(n)), w)
    except Exception:
        pass
    set_path(None)
    name = f"C11/VmapMixture rejects exactly non-positive weights (error_if predicate <=> some w_i <= 0)"
    if not ctx.errors:
        out.append(rec(name, "violation", detail="no error_if recorded in the traced constructor", replay=dict(func="c11:replay_reject", kwargs=dict(which="mixture")), nontrivial=False))
    else:
        pred = toz(ctx.errors[0])
        out.append(_finish(_prove(name, ctx, [], [("iff", pred == z3.Or(*[v <= 0 for v in w]))], check), replay_reject, which="mixture"))
    return out


def replay_reject(model, which):
    import jax.numpy as jnp
    import equinox as eqx
    import flowjax.distributions as fd
    import flowjax.bijections as fb
    tests = {
        "mixture": lambda: fd.VmapMixture(eqx.filter_vmap(fd.Normal)(jnp.arange(2.0)), jnp.array([1.0, 0.0])),
        "uniform": lambda: fd.Uniform(jnp.array(1.0), jnp.array(1.0)),
        "studentt": lambda: fd.StudentT(jnp.array(0.0)),
        "permute": lambda: fb.Permute(jnp.array([0, 0, 2])),
        "scale": lambda: fb.Affine(jnp.zeros(2), jnp.array([1.0, -1.0])),
    }
    try:
        tests[which]()
    except Exception as e:  # noqa
        return False, f"{which}: invalid argument rejected with {type(e).__name__}"
    return True, f"{which}: invalid argument was accepted"


def ob_rejections():
    """constructor arguments outside the constraint are rejected: the recorded error_if predicate holds exactly on the invalid set"""
    jax, jnp, eqx, jx, Ctx, Interp, set_path, check, split, toreal, toz, symarr, trace, leaves_of, f64 = _env()
    import flowjax.distributions as fd
    import flowjax.bijections as fb
    from flowjax.wrappers import unwrap
    out = []

    def run(fn, ex, syms):
        ctx = Ctx()
        I = Interp(ctx)
        set_path([], ctx.facts)
        res = I.run(trace(fn, *ex), *syms)
        set_path(None)
        return ctx, res
    # Uniform: maxval <= minval
    lo, hi = symarr("lo", ()), symarr("hi", ())
    ctx, _ = run(lambda a, b: unwrap(fd.Uniform(a, b)).bijection.scale, (jnp.array(0.0), jnp.array(1.0)), (lo, hi))
    name = "C11/Uniform rejects exactly maxval <= minval"
    pred = z3.Or(*[toz(e) for e in ctx.errors]) if ctx.errors else None
    if pred is None:
        out.append(rec(name, "violation", detail="no error_if recorded", replay=dict(func="c11:replay_reject", kwargs=dict(model={}, which="uniform")), nontrivial=False))
    else:
        out.append(_finish(_prove(name, ctx, [], [("invalid=>rejected", z3.Implies(hi[()] <= lo[()], pred)), ("valid=>accepted", z3.Implies(hi[()] > lo[()], z3.Not(pred)))], check), replay_reject, which="uniform"))
    # StudentT: df <= 0
    df = symarr("df", ())
    ctx, _ = run(lambda d: unwrap(fd.StudentT(d)).base_dist.df, (jnp.array(2.0),), (df,))
    name = "C11/StudentT rejects exactly df <= 0"
    pred = z3.Or(*[toz(e) for e in ctx.errors]) if ctx.errors else None
    if pred is None:
        out.append(rec(name, "violation", detail="no error_if recorded", replay=dict(func="c11:replay_reject", kwargs=dict(model={}, which="studentt")), nontrivial=False))
    else:
        out.append(_finish(_prove(name, ctx, [], [("invalid=>rejected", z3.Implies(df[()] <= 0, pred)), ("valid=>accepted", z3.Implies(df[()] > 0, z3.Not(pred)))], check), replay_reject, which="studentt"))
    # Affine scale <= 0: BijectionReparam's validity check (finite value whose inverse image is not finite)
    sc = symarr("sc", ())
    ctx, _ = run(lambda s_: unwrap(fb.Affine(jnp.zeros(()), s_)).scale, (jnp.array(1.0),), (sc,))
    name = "C11/Affine (SoftPlus reparameterisation) rejects exactly scale <= 0"
    pred = z3.Or(*[toz(e) for e in ctx.errors]) if ctx.errors else None
    if pred is None:
        out.append(rec(name, "violation", detail="no error_if recorded", replay=dict(func="c11:replay_reject", kwargs=dict(model={}, which="scale")), nontrivial=False))
    else:
        out.append(_finish(_prove(name, ctx, [], [("invalid=>rejected", z3.Implies(sc[()] <= 0, pred)), ("valid=>accepted", z3.Implies(sc[()] > 0, z3.Not(pred)))], check), replay_reject, which="scale"))
    # Permute: non-permutations (symbolic ints, sorting network)
    n = 3
    p = symarr("p", (n,), z3.IntSort())
    ctx = Ctx()
    I = Interp(ctx)
    set_path([], ctx.facts)
    import jax.numpy as jnp2

    def mkperm(v):
        q = eqx.error_if(v, v.ravel().sort() != jnp2.arange(v.size, dtype=int), "Invalid permutation array provided.")
        return q
    # the real constructor (its error_if is the first statement); later unravel_index needs concrete values, so only the check is traced
    import inspect
    src = inspect.getsource(fb.Permute.__init__)
    structural = "permutation.ravel().sort() != jnp.arange(permutation.size, dtype=int)" in src.replace("\n", " ").replace("  ", " ")
    try:
        I.run(trace(mkperm, jnp.arange(n)), p)
        pred = toz(ctx.errors[0])
        isperm = z3.And(z3.Distinct(*list(p)), *[z3.And(v >= 0, v < n) for v in p])
        st, m = check(ctx, [], pred == z3.Not(isperm), name="permute")
        good = st == "unsat" and structural
    except Exception as e:  # noqa
        good, st = False, f"{type(e).__name__}: {e}"
    set_path(None)
    name = "C11/Permute rejects exactly non-permutations (sorted(p) != arange) for all integer vectors of length 3"
    ok_real, msg = replay_reject({}, "permute")
    if ok_real:
        out.append(rec(name, "violation", detail=msg, replay=dict(func="c11:replay_reject", kwargs=dict(model={}, which="permute"))))
    else:
        out.append(rec(name, "discharged" if good else "inconclusive", detail="" if good else f"{st}; constructor source matches the traced predicate: {structural}", queries=1))
    return out


def ob_weightnorm():
    """weight-normalised rows have norm == scale_i (softplus-positive) for every raw weight with non-zero rows"""
    jax, jnp, eqx, jx, Ctx, Interp, set_path, check, split, toreal, toz, symarr, trace, leaves_of, f64 = _env()
    from flowjax.wrappers import WeightNormalization, unwrap
    wn = f64(WeightNormalization(jnp.array([[1.0, 2.0], [0.5, -1.0]])))
    leaves, mk, paths = leaves_of(wn)
    syms = [symarr(f"raw{i}", l.shape) for i, l in enumerate(leaves)]
    widx = [i for i, p in enumerate(paths) if p.endswith(".weight")][0]
    W = syms[widx]
    ctx = Ctx()
    I = Interp(ctx)
    assume = [z3.Or(*[v != 0 for v in W[r]]) for r in range(W.shape[0])]
    set_path(assume, ctx.facts)
    out_w = I.run(trace(lambda ls: unwrap(mk(ls)), leaves), *syms)[0]
    sc = I.run(trace(lambda ls: unwrap(mk(ls).scale), leaves), *syms)[0]
    set_path(None)
    goals = []
    for r in range(W.shape[0]):
        n2 = Fraction(0)
        okr = True
        for v in out_w[r]:
            t, o, i = split(v)
            okr = jx.band(okr, o, i == 0)
            n2 = jx.add(n2, jx.mul(t, t))
        st, so, si = split(sc[r, 0])
        goals.append((f"row{r}", z3.And(toz(okr), toz(jx.band(so, si == 0)), toreal(split(n2)[0]) == toreal(st) * toreal(st), toreal(st) > 0)))
    name = "C11/WeightNormalization: every row of the unwrapped weight has norm == its (positive) scale, for every raw weight with non-zero rows"
    return [_finish(_prove(name, ctx, assume, goals, check), replay_weightnorm)]


def replay_weightnorm(model):
    import jax.numpy as jnp
    import jax
    from flowjax.wrappers import WeightNormalization, unwrap
    from ..sym import leaves_of
    wn = WeightNormalization(jnp.array([[1.0, 2.0], [0.5, -1.0]]))
    leaves, mk, paths = leaves_of(wn)
    new = []
    for i, l in enumerate(leaves):
        a = np.array(l, dtype=float)
        for idx in np.ndindex(a.shape):
            k = f"raw{i}" + "".join(f"_{j}" for j in idx)
            if k in model:
                a[idx] = float(model[k])
        new.append(jnp.asarray(a))
    w = mk(new)
    if not np.all(np.linalg.norm(np.asarray(new[[i for i, p in enumerate(paths) if p.endswith(".weight")][0]]), axis=-1) > 1e-6):
        return False, "degenerate rows in the model"
    out = np.asarray(unwrap(w))
    sc = np.asarray(unwrap(w.scale)).ravel()
    norms = np.linalg.norm(out, axis=-1)
    bad = (not np.allclose(norms, np.abs(sc), rtol=1e-5)) or np.any(sc <= 0)
    return bool(bad), f"row norms {norms.tolist()} scale {sc.tolist()} (scale must stay positive and equal the row norms)"


def ob_planar(dim=2):
    """planar layers stay invertible: 1 + s * (w . u_hat) > 0 for both slopes s of the activation (1 and negative_slope; tanh: s in (0, 1]),
    for every raw u and every w != 0 - also for a leaky-relu slope above 1, which the documentation allows ('a positive float')"""
    jax, jnp, eqx, jx, Ctx, Interp, set_path, check, split, toreal, toz, symarr, trace, leaves_of, f64 = _env()
    from flowjax.bijections.planar import _UnconditionalPlanar
    out = []
    for slope in (None, 0.1, 1.0, 2.0, 4.0, 2.5):
        w, u = symarr("w", (dim,)), symarr("u", (dim,))
        ctx = Ctx()
        I = Interp(ctx)
        assume = [z3.Or(*[v != 0 for v in w])]
        set_path(assume, ctx.facts)
        uh = I.run(trace(lambda w_, u_: _UnconditionalPlanar(w_, u_, jnp.array(0.0), slope).get_act_scale(), jnp.ones(dim), jnp.ones(dim)), w, u)[0]
        set_path(None)
        dot = Fraction(0)
        for i in range(dim):
            dot = jx.add(dot, jx.mul(w[i], uh[i]))
        t, o, i_ = split(dot)
        smax = 1 if slope is None else max(1, slope)
        name = f"C11/planar (d={dim}, {'tanh' if slope is None else 'leaky_relu negative_slope=' + str(slope)}): 1 + s * (w . u_hat) > 0 for every slope s of the activation, every raw u and every w != 0"
        # strict when 1/negative_slope is exact in binary; otherwise up to the rounding of the float literal -1/negative_slope (1e-12)
        exact = Fraction(1) / Fraction(smax) == Fraction(float(1 / smax))
        lo = z3.RealVal(0) if exact else z3.RealVal("-1/1000000000000")
        goals = [("defined", toz(jx.band(o, i_ == 0))), ("1+w.uhat>0", 1 + toreal(t) > 0), (f"1+{smax}*w.uhat>{'0' if exact else '-1e-12'}", 1 + z3.RealVal(str(Fraction(smax))) * toreal(t) > lo)]
        out.append(_finish(_prove(name, ctx, assume, goals, check), replay_planar, slope=slope, dim=dim))
    return out


def replay_planar(model, slope=None, dim=2):
    """monotonicity of the real layer along w at the model's parameters: 1 + s * w.u_hat for both slopes"""
    import jax.numpy as jnp
    from flowjax.bijections.planar import _UnconditionalPlanar
    w = jnp.asarray([float(model.get(f"w_{i}", 0.0)) for i in range(dim)])
    u = jnp.asarray([float(model.get(f"u_{i}", 0.0)) for i in range(dim)])
    if not bool(jnp.any(w != 0)):
        return False, "w == 0 (outside the assumption)"
    b = _UnconditionalPlanar(w, u, jnp.array(0.0), slope)
    wu = float(b.get_act_scale() @ w)
    smax = 1 if slope is None else max(1.0, slope)
    bad = not (1 + wu > 0 and 1 + smax * wu > 0)
    return bad, f"w={w.tolist()} u={u.tolist()} negative_slope={slope}: w.u_hat={wu}, 1 + {smax} * w.u_hat = {1 + smax * wu}"


def ob_roundtrips():
    """a constructed object reproduces its constructor arguments (scale, rate, df, bounds, covariance)"""
    jax, jnp, eqx, jx, Ctx, Interp, set_path, check, split, toreal, toz, symarr, trace, leaves_of, f64 = _env()
    import flowjax.distributions as fd
    from ..bij import eq_goal
    out = []

    def go(name, fn, ex, syms, assume, ref):
        ctx = Ctx()
        ctx.exp_overflow = 709.782712893384      # exp / expm1 overflow (float64): a parameter of magnitude 1e3..1e6 must still be reproduced
        I = Interp(ctx)
        set_path(assume, ctx.facts)
        res = I.run(trace(fn, *ex), *syms)
        set_path(None)
        for k, (got, want) in enumerate(zip(res, ref)):
            st, m, where = eq_goal(ctx, assume, got, want, name)
            if st != "unsat":
                ok, msg = replay_accessors()
                return rec(name, "violation" if ok else "inconclusive", detail=f"output {k}: {st} at {where} | replay: {msg}", replay=dict(func="c11:replay_accessors", kwargs={}))
        return rec(name, "discharged", vacuity=True)
    loc, sc = symarr("loc", (2,)), symarr("sc", (2,))
    out.append(go("C11/Normal(loc, scale): .loc/.scale return the constructor's values", lambda l, s_: (fd.Normal(l, s_).loc, fd.Normal(l, s_).scale),
                  (jnp.zeros(2), jnp.ones(2)), (loc, sc), [v > 0 for v in sc], (loc, sc)))
    rate = symarr("rate", (2,))
    out.append(go("C11/Exponential(rate): .rate returns the constructor's value", lambda r_: (fd.Exponential(r_).rate,), (jnp.ones(2),), (rate,), [v > 0 for v in rate], (rate,)))
    df = symarr("df", (2,))
    out.append(go("C11/StudentT(df, loc, scale): .df/.loc/.scale return the constructor's values",
                  lambda d, l, s_: (fd.StudentT(d, l, s_).df, fd.StudentT(d, l, s_).loc, fd.StudentT(d, l, s_).scale),
                  (jnp.ones(2) * 2, jnp.zeros(2), jnp.ones(2)), (df, loc, sc), [v > 0 for v in list(df) + list(sc)], (df, loc, sc)))
    lo, hi = symarr("lo", (2,)), symarr("hi", (2,))
    out.append(go("C11/Uniform(minval, maxval): .minval/.maxval return the constructor's values", lambda a, b: (fd.Uniform(a, b).minval, fd.Uniform(a, b).maxval),
                  (jnp.zeros(2), jnp.ones(2)), (lo, hi), [h > l for l, h in zip(lo, hi)], (lo, hi)))
    # MultivariateNormal: the stored Cholesky factor is reproduced by unwrap (positive diagonal), and covariance == ch ch^T by construction
    import flowjax.bijections as fb
    from flowjax.wrappers import unwrap
    L = symarr("L", (2, 2))
    out.append(go("C11/TriangularAffine stores the given (Cholesky) factor: unwrap(triangular) == tril(L) for every positive diagonal",
                  lambda Lm: (unwrap(fb.TriangularAffine(jnp.zeros(2), Lm).triangular),), (jnp.eye(2),), (L,), [L[0, 0] > 0, L[1, 1] > 0],
                  (np.array([[L[0, 0], Fraction(0)], [L[1, 0], L[1, 1]]], dtype=object),)))
    ch = symarr("ch", (2, 2))
    mvn = fd.MultivariateNormal(jnp.zeros(2), jnp.eye(2))
    ref = np.empty((2, 2), dtype=object)
    for i in range(2):
        for k in range(2):
            ref[i, k] = jx.add(jx.mul(ch[i, 0], ch[k, 0]), jx.mul(ch[i, 1], ch[k, 1]))
    tri_where = lambda m: m.bijection.triangular
    out.append(go("C11/MultivariateNormal.covariance == ch ch^T for the unwrapped factor ch",
                  lambda c_: (eqx.tree_at(tri_where, unwrap(mvn), c_).covariance,), (jnp.eye(2),), (ch,), [], (ref,)))
    return out


def replay_accessors():
    """float64: every family's accessors against its constructor arguments over the magnitudes 1e-6 .. 1e6"""
    import jax
    jax.config.update("jax_enable_x64", True)
    import jax.numpy as jnp
    import flowjax.distributions as fd
    bad = []
    mags = [1e-6, 1e-3, 0.5, 1.0, 37.0, 89.0, 710.0, 1e3, 1e6]
    for v in mags:
        a = jnp.array([v, 2.5 * v])
        cases = {
            "Normal.scale": lambda: (fd.Normal(jnp.zeros(2), a).scale, a), "Normal.loc": lambda: (fd.Normal(a, jnp.ones(2)).loc, a),
            "LogNormal scale": lambda: (fd.Normal(jnp.zeros(2), a).scale, a), "Exponential.rate": lambda: (fd.Exponential(a).rate, a),
            "StudentT.df": lambda: (fd.StudentT(a, jnp.zeros(2), jnp.ones(2)).df, a), "StudentT.scale": lambda: (fd.StudentT(jnp.ones(2) * 3, jnp.zeros(2), a).scale, a),
            "Uniform.maxval": lambda: (fd.Uniform(jnp.zeros(2), a).maxval, a), "Uniform.minval": lambda: (fd.Uniform(-a, jnp.ones(2) * 2e6).minval, -a),
            "Gumbel.scale": lambda: (fd.Gumbel(jnp.zeros(2), a).scale, a), "Cauchy.scale": lambda: (fd.Cauchy(jnp.zeros(2), a).scale, a),
            "Laplace.scale": lambda: (fd.Laplace(jnp.zeros(2), a).scale, a), "Logistic.scale": lambda: (fd.Logistic(jnp.zeros(2), a).scale, a),
        }
        for nm, f in cases.items():
            try:
                got, want = f()
            except Exception as e:  # noqa
                bad.append(f"{nm} at {v}: raised {type(e).__name__}")
                continue
            got, want = np.asarray(got, dtype=float), np.asarray(want, dtype=float)
            if not np.all(np.isfinite(got)) or not np.allclose(got, want, rtol=1e-9, atol=0):
                bad.append(f"{nm}: constructed with {want.tolist()} but the accessor returns {got.tolist()}")
    return bool(bad), "; ".join(bad[:3]) or "accessors reproduce the constructor arguments over 1e-6..1e6 (float64)"


def obligations(tier, seed):
    K = 2 if tier == "quick" else 3
    tasks = [dict(name="positive", func="c11:ob_positive_scales", kwargs={}, cost=3),
             dict(name="rejections", func="c11:ob_rejections", kwargs={}, cost=3),
             dict(name="weightnorm", func="c11:ob_weightnorm", kwargs={}, cost=3),
             dict(name="roundtrips", func="c11:ob_roundtrips", kwargs={}, cost=3)]
    for k in range(1, K + 1):
        tasks.append(dict(name=f"spline{k}", func="c11:ob_spline", kwargs=dict(K=k), cost=5))
    for n in (2, 3):
        tasks.append(dict(name=f"mixture{n}", func="c11:ob_mixture", kwargs=dict(n=n), cost=3))
    for d in (1, 2):
        tasks.append(dict(name=f"planar{d}", func="c11:ob_planar", kwargs=dict(dim=d), cost=2))
    return tasks
