"""C09 - autoregressive, coupling and block structure holds for all weights (E1, raw weights symbolic, masks applied at unwrap inside the jaxpr)."""
from __future__ import annotations

import itertools
from fractions import Fraction

import numpy as np
import z3

from ..core import rec

META = dict(
    files=["flowjax/bijections/masked_autoregressive.py", "flowjax/masks.py", "flowjax/bijections/coupling.py", "flowjax/bijections/block_autoregressive_network.py", "flowjax/wrappers.py"],
    functions=["MaskedAutoregressive.transform / masked_autoregressive_mlp (raw weights, Where masks in the jaxpr)", "Coupling.transform", "BlockAutoregressiveNetwork.transform (jacfwd jaxpr)",
               "flowjax.masks.rank_based_mask / block_diag_mask / block_tril_mask"],
    trusted_base=["vlib/jx.py constant folding (0 * t = 0) makes masked paths vanish syntactically; remaining dependencies are decided by z3", "z3 5.1.0", "JAX forward-mode autodiff for the BNAF Jacobian"],
    assumptions=["weights are arbitrary reals (raw, pre-mask); floats as reals"],
    bounds=dict(quick="MAF grid dim 1-3 x cond 0-1 x width 1-3 x depth 0-1 (affine transformer); coupling dim 2-3; BNAF dim 1-2, depth 0-1, block 1-2; rank vectors of length <= 3",
                thorough="MAF dim<=3, cond<=2, width<=4, depth<=2 incl. spline transformer; BNAF depth 2"),
)


def free_vars(t):
    out = set()
    seen = set()
    st = [t]
    while st:
        e = st.pop()
        i = e.get_id()
        if i in seen:
            continue
        seen.add(i)
        if z3.is_app(e):
            if e.num_args() == 0 and e.decl().kind() == z3.Z3_OP_UNINTERPRETED:
                out.add(e.decl().name())
            st.extend(e.children())
    return out


def _vars_of(v):
    from .. import jx
    t, o, i = jx.split(v)
    s = set()
    for q in (t, o, i):
        if jx.is_z(q):
            s |= free_vars(q)
    return s


def _independent(ctx, assume, val, forbidden, allvars, check):
    """val does not depend on the `forbidden` variables: syntactic, else solver (two copies agreeing elsewhere)"""
    from .. import jx
    vs = _vars_of(val)
    if not (vs & set(forbidden)):
        return "unsat", True
    t = jx.toreal(jx.split(val)[0])
    sb = [(z3.Real(n), z3.Real(n + "__b")) for n in forbidden]
    t2 = z3.substitute(t, *sb)
    st, m = check(ctx, assume, t == t2, name="")
    return st, False


def ob_maf(dim, cond, width, depth, rqs=False):
    import jax
    import jax.numpy as jnp
    import jax.random as jr
    import equinox as eqx
    import flowjax.bijections as fb
    from flowjax import flows
    from .. import jx
    from ..jx import Ctx, Interp, set_path, check, split, toreal
    from ..sym import symarr, trace, leaves_of, f64
    tr = flows._affine_with_min_scale() if not rqs else fb.RationalQuadraticSpline(knots=1, interval=2)
    b = f64(fb.MaskedAutoregressive(jr.PRNGKey(0), transformer=tr, dim=dim, cond_dim=cond, nn_width=width, nn_depth=depth))
    leaves, mk, paths = leaves_of(b)
    syms = [symarr(f"w{i}", l.shape) for i, l in enumerate(leaves)]
    x = symarr("x", (dim,))
    c = symarr("c", (cond,)) if cond else None
    ctx = Ctx()
    I = Interp(ctx)
    set_path([], ctx.facts)
    ex = [leaves, jnp.zeros(dim)] + ([jnp.zeros(cond)] if cond else [])
    if cond:
        jy = trace(lambda ls, xv, cv: mk(ls).transform(xv, cv), *ex)
        args = syms + [x, c]
    else:
        jy = trace(lambda ls, xv: mk(ls).transform(xv), *ex)
        args = syms + [x]
    # NB: calling the sub-module directly bypasses the bijection wrapper's unwrap; apply it as the real methods do
    from flowjax.wrappers import unwrap
    if cond:
        jp = trace(lambda ls, xv, cv: jnp.reshape(unwrap(mk(ls)).masked_autoregressive_mlp(jnp.hstack((xv, cv))), (dim, -1)), *ex)
    else:
        jp = trace(lambda ls, xv: jnp.reshape(unwrap(mk(ls)).masked_autoregressive_mlp(xv), (dim, -1)), *ex)
    y = I.run(jy, *args)[0]
    prm = I.run(jp, *args)[0]
    set_path(None)
    name = f"C09/MAF(dim={dim},cond={cond},width={width},depth={depth}{',RQS' if rqs else ''})"
    bad = []
    nq = 0
    for i in range(dim):
        forb_y = [f"x_{j}" for j in range(i + 1, dim)]
        forb_p = [f"x_{j}" for j in range(i, dim)]
        st, syn = _independent(ctx, [], y[i], forb_y, None, check)
        nq += 0 if syn else 1
        if st != "unsat":
            bad.append(f"output {i} depends on inputs after it ({sorted(_vars_of(y[i]) & set(forb_y))})")
        for k in range(prm.shape[1]):
            st, syn = _independent(ctx, [], prm[i, k], forb_p, None, check)
            nq += 0 if syn else 1
            if st != "unsat":
                bad.append(f"transformer parameter ({i},{k}) depends on inputs {sorted(_vars_of(prm[i, k]) & set(forb_p))}")
    if bad:
        ok, msg = replay_structure("maf", dim=dim, cond=cond, width=width, depth=depth, rqs=rqs)
        return [rec(name + ": output i depends only on inputs 0..i, its transformer parameters only on inputs before i (all weights)", "violation" if ok else "inconclusive",
                    detail="; ".join(bad[:3]) + " | replay: " + msg, replay=dict(func="c09:replay_structure", kwargs=dict(kind="maf", dim=dim, cond=cond, width=width, depth=depth, rqs=rqs)), queries=nq)]
    out = [rec(name + ": output i depends only on inputs 0..i, its transformer parameters only on inputs before i (all weights)", "discharged", queries=nq, nontrivial=True,
               detail="masked paths vanish by constant folding (mask zeros are concrete selects in the jaxpr)")]
    # permitted dependencies present when width >= dim (witness: all-positive weights), and free dependence on the condition
    ok, msg = replay_structure("maf", dim=dim, cond=cond, width=width, depth=depth, rqs=rqs, completeness=True)
    nm = name + ": no permitted dependency missing (width >= dim) and free dependence on the condition"
    if width >= dim or (cond and dim == 1):
        out.append(rec(nm, "violation" if ok else "discharged", detail=msg, nontrivial=False,
                       replay=dict(func="c09:replay_structure", kwargs=dict(kind="maf", dim=dim, cond=cond, width=width, depth=depth, rqs=rqs, completeness=True)) if ok else None))
    return out


def replay_structure(kind, dim, cond, width=2, depth=1, rqs=False, completeness=False, block=1):
    """numeric Jacobian of the REAL layer with large random / all-positive weights"""
    import jax
    import jax.numpy as jnp
    import jax.random as jr
    import equinox as eqx
    import flowjax.bijections as fb
    from flowjax import flows
    jax.config.update("jax_enable_x64", True)
    tr = flows._affine_with_min_scale() if not rqs else fb.RationalQuadraticSpline(knots=1, interval=2)
    key = jr.PRNGKey(1)
    if kind == "maf":
        b = fb.MaskedAutoregressive(key, transformer=tr, dim=dim, cond_dim=cond, nn_width=width, nn_depth=depth)
    elif kind == "coupling":
        b = fb.Coupling(key, transformer=tr, untransformed_dim=max(1, dim // 2), dim=dim, cond_dim=cond, nn_width=width, nn_depth=depth)
    else:
        b = fb.BlockAutoregressiveNetwork(key, dim=dim, cond_dim=cond, depth=depth, block_dim=block)
    params, static = eqx.partition(b, eqx.is_inexact_array)
    msgs = []
    bad = False
    for trial, fill in enumerate(["pos", "rand", "rand2"]):
        if fill == "pos":
            p2 = jax.tree_util.tree_map(lambda l: jnp.ones_like(l, dtype=jnp.float64) * 0.7, params)
        else:
            ks = jr.split(jr.PRNGKey(10 + trial), len(jax.tree_util.tree_leaves(params)))
            lv, td = jax.tree_util.tree_flatten(params)
            p2 = jax.tree_util.tree_unflatten(td, [3.0 * jr.normal(k, l.shape, dtype=jnp.float64) for k, l in zip(ks, lv)])
        bb = eqx.combine(p2, static)
        x = jnp.arange(1.0, dim + 1) * 0.37
        c = (jnp.arange(1.0, cond + 1) * 0.21) if cond else None
        J = np.asarray(jax.jacobian(lambda v: bb.transform(v, c))(x))
        if kind == "maf":
            # the transformer parameters of coordinate i may depend on x_j only for j < i (strictly): Jacobian of the real conditioner
            from flowjax.wrappers import unwrap as _unw
            mlp = _unw(bb).masked_autoregressive_mlp
            Jp = np.asarray(jax.jacobian(lambda v: mlp(v if c is None else jnp.hstack((v, c))))(x)).reshape(dim, -1, dim)
            leak = [(i, j) for i in range(dim) for j in range(i, dim) if np.any(np.abs(Jp[i, :, j]) > 1e-12)]
            if leak:
                bad = True
                msgs.append(f"{fill}: transformer parameters of coordinate i depend on x_j with j >= i for (i, j) in {leak}")
            # consequence: the reported log-det is no longer log|det J|
            ld = float(bb.transform_and_log_det(x, c)[1])
            sgn, lad = np.linalg.slogdet(J)
            if abs(ld - lad) > 1e-8 * (1 + abs(lad)):
                bad = True
                msgs.append(f"{fill}: reported log-det {ld} but log|det J| = {lad}")
        if kind in ("maf", "bnaf"):
            up = np.triu(J, 1)
            if np.any(np.abs(up) > 1e-12):
                bad = True
                msgs.append(f"{fill}: Jacobian has non-zero entries above the diagonal {up.tolist()}")
            if kind == "bnaf" and np.any(np.diag(J) <= 0):
                bad = True
                msgs.append(f"{fill}: diagonal not positive {np.diag(J).tolist()}")
            if completeness and fill == "pos" and kind == "maf" and width >= dim:
                low = np.tril(J, -1)
                missing = [(i, j) for i in range(dim) for j in range(i) if abs(low[i, j]) < 1e-12]
                if missing and depth >= 0:
                    bad = True
                    msgs.append(f"permitted dependencies missing at {missing}")
        if kind == "coupling":
            d = max(1, dim // 2)
            if not np.allclose(J[:d, :d], np.eye(d)) or np.any(np.abs(J[:d, d:]) > 1e-12):
                bad = True
                msgs.append(f"{fill}: first block is not returned unchanged")
            off = J[d:, d:] - np.diag(np.diag(J[d:, d:]))
            if np.any(np.abs(off) > 1e-12):
                bad = True
                msgs.append(f"{fill}: transformed coordinates depend on each other")
        if completeness and cond and fill == "pos":
            Jc = np.asarray(jax.jacobian(lambda cv: bb.transform(x, cv))(c))
            if np.all(np.abs(Jc) < 1e-12):
                bad = True
                msgs.append("no dependence on the condition")
    return bad, "; ".join(msgs[:3]) or "structure holds on the replay weights"


def ob_coupling(dim, cond, width=2, depth=1):
    import jax
    import jax.numpy as jnp
    import jax.random as jr
    import flowjax.bijections as fb
    from flowjax import flows
    from .. import jx
    from ..jx import Ctx, Interp, set_path, check, split
    from ..sym import symarr, trace, leaves_of, f64
    d = max(1, dim // 2)
    b = f64(fb.Coupling(jr.PRNGKey(0), transformer=flows._affine_with_min_scale(), untransformed_dim=d, dim=dim, cond_dim=cond, nn_width=width, nn_depth=depth))
    leaves, mk, paths = leaves_of(b)
    syms = [symarr(f"w{i}", l.shape) for i, l in enumerate(leaves)]
    x = symarr("x", (dim,))
    c = symarr("c", (cond,)) if cond else None
    ctx = Ctx()
    I = Interp(ctx)
    set_path([], ctx.facts)
    ex = [leaves, jnp.zeros(dim)] + ([jnp.zeros(cond)] if cond else [])
    j = trace((lambda ls, xv, cv: mk(ls).transform(xv, cv)) if cond else (lambda ls, xv: mk(ls).transform(xv)), *ex)
    y = I.run(j, *(syms + [x] + ([c] if cond else [])))[0]
    set_path(None)
    bad = []
    for i in range(d):
        if not (jx.is_z(y[i]) and y[i].eq(x[i])):
            bad.append(f"y[{i}] is not x[{i}]")
    for i in range(d, dim):
        forb = [f"x_{k}" for k in range(d, dim) if k != i]
        st, syn = _independent(ctx, [], y[i], forb, None, check)
        if st != "unsat":
            bad.append(f"y[{i}] depends on other transformed inputs")
    name = f"C09/Coupling(dim={dim},cond={cond},width={width},depth={depth}): first block unchanged; coordinate j depends only on itself, the first block and the condition (all weights)"
    if bad:
        ok, msg = replay_structure("coupling", dim=dim, cond=cond, width=width, depth=depth)
        return [rec(name, "violation" if ok else "inconclusive", detail="; ".join(bad) + " | replay: " + msg,
                    replay=dict(func="c09:replay_structure", kwargs=dict(kind="coupling", dim=dim, cond=cond, width=width, depth=depth)))]
    return [rec(name, "discharged", nontrivial=True)]


def ob_bnaf(dim, cond, depth, block):
    """Jacobian of the block autoregressive network: entries above the diagonal are identically 0, diagonal > 0, for ALL raw weights"""
    import jax
    import jax.numpy as jnp
    import jax.random as jr
    import flowjax.bijections as fb
    from .. import jx
    from ..jx import Ctx, Interp, set_path, check, split, toreal, toz
    from ..sym import symarr, trace, leaves_of, f64
    b = f64(fb.BlockAutoregressiveNetwork(jr.PRNGKey(0), dim=dim, cond_dim=cond, depth=depth, block_dim=block))
    leaves, mk, paths = leaves_of(b)
    syms = [symarr(f"w{i}", l.shape) for i, l in enumerate(leaves)]
    x = symarr("x", (dim,))
    c = symarr("c", (cond,)) if cond else None
    ctx = Ctx()
    I = Interp(ctx)
    # non-degenerate weight-norm rows (the wrapper divides by the row norm): assumed, as in C11
    set_path([], ctx.facts)
    ex = [leaves, jnp.zeros(dim)] + ([jnp.zeros(cond)] if cond else [])
    j = trace((lambda ls, xv, cv: jax.jacfwd(lambda q: mk(ls).transform(q, cv))(xv)) if cond else (lambda ls, xv: jax.jacfwd(lambda q: mk(ls).transform(q))(xv)), *ex)
    J = I.run(j, *(syms + [x] + ([c] if cond else [])))[0]
    set_path(None)
    name = f"C09/BNAF(dim={dim},cond={cond},depth={depth},block={block})"
    out = []
    def _is0(v):
        t = split(v)[0]
        return (not jx.is_z(t)) and t == 0
    bad = [(i, k) for i in range(dim) for k in range(i + 1, dim) if not _is0(J[i, k])]
    if bad:
        ok, msg = replay_structure("bnaf", dim=dim, cond=cond, depth=depth, block=block)
        out.append(rec(name + ": Jacobian lower triangular for all weights", "violation" if ok else "inconclusive", detail=f"entries {bad} not identically zero | replay: {msg}",
                       replay=dict(func="c09:replay_structure", kwargs=dict(kind="bnaf", dim=dim, cond=cond, depth=depth, block=block))))
    else:
        out.append(rec(name + ": Jacobian lower triangular for all weights", "discharged", nontrivial=True, detail="upper entries fold to the constant 0"))
    # positivity of the diagonal under defined weight norms
    side = [s_ for s_ in ctx.side if jx.is_z(s_)]
    for i in range(dim):
        t, o, inf = split(J[i, i])
        st = "unsat" if jx.prove_pos(ctx, side, toreal(t)) else "unknown"
        m = None
        nm = name + f": dJ[{i},{i}] > 0 for all weights (weight-norm rows non-degenerate)"
        if st == "unsat":
            out.append(rec(nm, "discharged", queries=1))
        else:
            ok, msg = replay_structure("bnaf", dim=dim, cond=cond, depth=depth, block=block)
            out.append(rec(nm, "violation" if ok else "inconclusive", detail=f"{st} | replay: {msg}", queries=1,
                           replay=dict(func="c09:replay_structure", kwargs=dict(kind="bnaf", dim=dim, cond=cond, depth=depth, block=block))))
    return out


def ob_masks():
    import jax.numpy as jnp
    import numpy as onp
    from flowjax import masks
    from .. import jx
    from ..jx import Ctx, Interp, set_path, check
    from ..sym import symarr, trace
    out = []
    # rank_based_mask on symbolic integer ranks
    bad = []
    nq = 0
    for na, nb in itertools.product((1, 2, 3), repeat=2):
        for eq in (False, True):
            a, b = symarr("a", (na,), z3.IntSort()), symarr("b", (nb,), z3.IntSort())
            ctx = Ctx()
            I = Interp(ctx)
            m = I.run(trace(lambda p, q: masks.rank_based_mask(p, q, eq=eq), jnp.zeros(na, int), jnp.zeros(nb, int)), a, b)[0]
            if m.shape != (nb, na):
                bad.append(f"shape {m.shape} for in={na} out={nb}")
                continue
            for i in range(nb):
                for k in range(na):
                    want = (b[i] >= a[k]) if eq else (b[i] > a[k])
                    got = jx.toz(jx.split(m[i, k])[0])
                    st, _ = check(ctx, [], got == want, name="")
                    nq += 1
                    if st != "unsat":
                        bad.append(f"mask[{i},{k}] in={na} out={nb} eq={eq}")
    out.append(rec("C09/rank_based_mask: mask[i,j] == (out_rank[i] > in_rank[j]) (>= with eq) for all integer rank vectors of length <= 3", "discharged" if not bad else "violation",
                   detail="; ".join(bad[:3]), queries=nq, replay=dict(func="c09:replay_masks", kwargs={}) if bad else None))
    # block masks: sizes are the only inputs -> exhaustive over small sizes against the index formula
    bad = []
    n = 0
    for r, c_, nb_ in itertools.product((1, 2, 3), (1, 2, 3), (1, 2, 3, 4)):
        d = onp.asarray(masks.block_diag_mask((r, c_), nb_))
        ref = onp.zeros((r * nb_, c_ * nb_), bool)
        for i in range(r * nb_):
            for k in range(c_ * nb_):
                ref[i, k] = (i // r) == (k // c_)
        n += 1
        if d.shape != ref.shape or not onp.array_equal(d, ref):
            bad.append(f"block_diag_mask({(r, c_)},{nb_})")
        for kk in (-1, 0, 1):
            t = onp.asarray(masks.block_tril_mask((r, c_), nb_, k=kk))
            ref = onp.zeros((r * nb_, c_ * nb_), bool)
            for i in range(r * nb_):
                for k in range(c_ * nb_):
                    ref[i, k] = (i // r) >= max(0, (k // c_) - kk)
            n += 1
            if t.shape != ref.shape or not onp.array_equal(t, ref):
                bad.append(f"block_tril_mask({(r, c_)},{nb_},k={kk})")
    out.append(rec(f"C09/block_diag_mask, block_tril_mask: documented pattern for all block shapes <= 3x3, n_blocks <= 4, k in -1..1 ({n} masks, exhaustive)", "discharged" if not bad else "violation",
                   detail="; ".join(bad[:3]), nontrivial=False, replay=dict(func="c09:replay_masks", kwargs={}) if bad else None))
    return out


def replay_masks():
    import numpy as onp
    import jax.numpy as jnp
    from flowjax import masks
    m = onp.asarray(masks.rank_based_mask(jnp.array([0, 1, 2]), jnp.array([0, 1, 2]), eq=False))
    ref = onp.array([[False, False, False], [True, False, False], [True, True, False]])
    d = onp.asarray(masks.block_diag_mask((2, 1), 2))
    refd = onp.array([[1, 0], [1, 0], [0, 1], [0, 1]], bool)
    bad = (not onp.array_equal(m, ref)) or (not onp.array_equal(d, refd))
    return bad, f"rank_based_mask={m.tolist()} block_diag_mask={d.tolist()}"


def obligations(tier, seed):
    tasks = []
    if tier == "quick":
        grid = [(d, c, w, dp) for d in (1, 2, 3) for c in (None, 1) for w in (1, 2, 3) for dp in (0, 1)]
    else:
        grid = [(d, c, w, dp) for d in (1, 2, 3) for c in (None, 1, 2) for w in (1, 2, 3, 4) for dp in (0, 1, 2)]
    for d, c, w, dp in grid:
        tasks.append(dict(name=f"maf/{d}/{c}/{w}/{dp}", func="c09:ob_maf", kwargs=dict(dim=d, cond=c, width=w, depth=dp), cost=d * w * (dp + 1)))
    if tier != "quick":
        tasks.append(dict(name="maf/rqs", func="c09:ob_maf", kwargs=dict(dim=2, cond=None, width=2, depth=1, rqs=True), cost=10))
        tasks.append(dict(name="maf/rqs0", func="c09:ob_maf", kwargs=dict(dim=3, cond=1, width=3, depth=0, rqs=True), cost=10))
    for d, c in ((2, None), (3, None), (3, 1), (2, 1)):
        tasks.append(dict(name=f"coupling/{d}/{c}", func="c09:ob_coupling", kwargs=dict(dim=d, cond=c), cost=3))
    for d, c, dp, bl in ([(1, None, 0, 1), (2, None, 0, 1), (1, None, 1, 1), (2, None, 1, 1), (1, None, 1, 2), (2, 1, 1, 1)] + ([(2, None, 1, 2), (2, None, 2, 1)] if tier != "quick" else [])):
        tasks.append(dict(name=f"bnaf/{d}/{c}/{dp}/{bl}", func="c09:ob_bnaf", kwargs=dict(dim=d, cond=c, depth=dp, block=bl), cost=10 * (dp + 1) * bl))
    tasks.append(dict(name="masks", func="c09:ob_masks", kwargs={}, cost=3))
    return tasks
