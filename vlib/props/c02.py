"""C02 - reported log-determinants equal the true log|det Jacobian| (E1, autodiff jaxpr as oracle)."""
from ..bij import ob_logdet_fwd, ob_logdet_inv  # noqa: F401
from . import c01

QUICK = c01.QUICK + ["planar2tanh"]
# (rqs3, the conditional planar layer and the depth-2 coupling conditioner do not discharge their log-det obligations within the budgets:
#  they stay in C01's thorough tier, where they do, and are outside C02's claim)
C02_SKIP = {"rqs3", "planar2c"}
THOROUGH = [n for n in c01.THOROUGH if n not in C02_SKIP] + ["planar2tanh"]

META = dict(
    files=c01.META["files"],
    functions=["<Class>.transform_and_log_det / inverse_and_log_det of every zoo instance; oracle = jaxpr of jax.jacfwd(<Class>.transform)"],
    trusted_base=c01.META["trusted_base"] + ["JAX forward-mode autodiff as the Jacobian oracle (one-sided at kinks: spline interval ends)"],
    assumptions=c01.META["assumptions"],
)


def ob_logdet_all(spec_name):
    from .. import zoo
    spec = zoo.get(spec_name)
    out = []
    for c in spec.x_cases():
        out += ob_logdet_fwd(spec_name, c.name)
    if spec.has_inverse:
        for c in spec.y_cases():
            out += ob_logdet_inv(spec_name, c.name)
    return out


def obligations(tier, seed):
    from .. import zoo
    names = QUICK if tier == "quick" else THOROUGH
    tasks = []
    for nm in names:
        spec = zoo.get(nm)
        if not nm.startswith("rqs"):
            tasks.append(dict(name=f"{nm}", func="c02:ob_logdet_all", kwargs=dict(spec_name=nm), cost=2.0))
            continue
        for c in spec.x_cases():
            tasks.append(dict(name=f"{nm}/fwd/{c.name}", func="c02:ob_logdet_fwd", kwargs=dict(spec_name=nm, case_name=c.name), cost=5.0))
        for c in spec.y_cases():
            tasks.append(dict(name=f"{nm}/inv/{c.name}", func="c02:ob_logdet_inv", kwargs=dict(spec_name=nm, case_name=c.name), cost=5.0))
    from . import c02x
    tasks += c02x.obligations(tier, seed)
    return tasks
