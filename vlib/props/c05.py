"""C05 - named distribution families match their textbook densities (E1: traced log_prob vs formulas written as z3 terms)."""
from __future__ import annotations

import math
from fractions import Fraction

import numpy as np
import z3

from ..core import rec

META = dict(
    files=["flowjax/distributions.py", "flowjax/bijections/affine.py", "flowjax/wrappers.py"],
    functions=["log_prob / sample / parameter accessors of Normal, LogNormal, MultivariateNormal, Uniform, Gumbel, Cauchy, StudentT, Laplace, Exponential, Logistic, VmapMixture"],
    trusted_base=["textbook formulas written in vlib/props/c05.py", "vlib/jx.py; lgamma and the random primitives are uninterpreted functions (congruence only)", "z3 5.1.0", "cholesky concrete at construction"],
    assumptions=["floats as exact reals; float literals such as 0.5*log(2*pi) compared within 1e-9", "accessor outputs (loc, scale, df, rate, bounds) are the parameters of the formulas (their equality with the constructor arguments is proved in C11)",
                 "'samples follow that density' is statistical and NOT decided: only sample(key) == loc + scale * base_sample(key) is"],
    bounds=dict(quick="event shapes () and (2,); mixtures with 2 components", thorough="plus (2,2) and broadcast parameter shapes"),
)

TOL = Fraction(1, 10 ** 9)


def _fam():
    import jax.numpy as jnp
    import equinox as eqx
    import flowjax.distributions as fd
    v = jnp.array
    return {
        "Normal": (lambda: fd.Normal(v([0.3, -0.2]), v([1.5, 0.7])), "locscale"),
        "Normal()": (lambda: fd.Normal(v(0.3), v(1.5)), "locscale"),
        "Normal(bcast)": (lambda: fd.Normal(v([0.3, -0.2]), v(1.5)), "locscale"),
        "LogNormal": (lambda: fd.LogNormal(v([0.1, 0.2]), v([1.1, 0.9])), "lognormal"),
        "Uniform": (lambda: fd.Uniform(v([0.5, -1.0]), v([2.0, 3.0])), "uniform"),
        "Gumbel": (lambda: fd.Gumbel(v([0.3, -0.2]), v([1.5, 0.7])), "locscale"),
        "Cauchy": (lambda: fd.Cauchy(v([0.3, -0.2]), v([1.5, 0.7])), "locscale"),
        "StudentT": (lambda: fd.StudentT(v([2.5, 4.0]), v([0.3, -0.2]), v([1.5, 0.7])), "studentt"),
        "Laplace": (lambda: fd.Laplace(v([0.3, -0.2]), v([1.5, 0.7])), "locscale"),
        "Exponential": (lambda: fd.Exponential(v([2.0, 0.5])), "exponential"),
        "Logistic": (lambda: fd.Logistic(v([0.3, -0.2]), v([1.5, 0.7])), "locscale"),
        # rank-2 event shapes (log(pi)-style constants must be counted once per independent dimension, not per last-axis element)
        "Normal(2x2)": (lambda: fd.Normal(v([[0.3, -0.2], [0.1, 0.4]]), v([[1.5, 0.7], [1.1, 0.6]])), "locscale"),
        "Gumbel(2x2)": (lambda: fd.Gumbel(v([[0.3, -0.2], [0.1, 0.4]]), v([[1.5, 0.7], [1.1, 0.6]])), "locscale"),
        "Cauchy(2x2)": (lambda: fd.Cauchy(v([[0.3, -0.2], [0.1, 0.4]]), v([[1.5, 0.7], [1.1, 0.6]])), "locscale"),
        "Laplace(2x2)": (lambda: fd.Laplace(v([[0.3, -0.2], [0.1, 0.4]]), v([[1.5, 0.7], [1.1, 0.6]])), "locscale"),
        "Logistic(2x2)": (lambda: fd.Logistic(v([[0.3, -0.2], [0.1, 0.4]]), v([[1.5, 0.7], [1.1, 0.6]])), "locscale"),
        "Cauchy(bcast 2x2)": (lambda: fd.Cauchy(v(0.3), v([[1.5, 0.7], [1.1, 0.6]])), "locscale"),
        "MultivariateNormal": (lambda: fd.MultivariateNormal(v([0.3, -0.2]), v([[2.0, 0.3], [0.3, 1.0]])), "mvn"),
    }


def _std_logpdf(ctx, fam, z, jx):
    """standard (loc 0, scale 1) log-density at z"""
    A, S, M, D, LOG, EXP = jx.add, jx.sub, jx.mul, (lambda a, b: jx.div(ctx, a, b)), (lambda a: jx.slog(ctx, a)), (lambda a: jx.sexp(ctx, a))
    F = Fraction
    if fam == "Normal":
        return S(jx.neg(D(M(z, z), F(2))), M(F(1, 2), LOG(M(F(2), _pi()))))
    if fam == "Gumbel":
        return jx.neg(A(z, EXP(jx.neg(z))))
    if fam == "Cauchy":
        return S(jx.neg(LOG(_pi())), LOG(A(F(1), M(z, z))))
    if fam == "Laplace":
        return S(jx.neg(jx.absv(z)), LOG(F(2)))
    if fam == "Logistic":
        return S(jx.neg(z), M(F(2), LOG(A(F(1), EXP(jx.neg(z))))))
    raise KeyError(fam)


def _pi():
    return Fraction(math.pi)  # the double nearest to pi; the 1e-9 tolerance absorbs the difference


def ob_family(name):
    import jax
    jax.config.update("jax_enable_x64", True)
    import jax.numpy as jnp
    import jax.random as jr
    import flowjax.distributions as fd
    from flowjax.wrappers import unwrap
    from .. import jx
    from ..jx import Ctx, Interp, set_path, check, split, toreal, toz
    from ..sym import f64, leaves_of, symarr, trace, all_ok
    mkd, kind = _fam()[name]
    # unwrapped parameters under their invariant (scale, df > 0; Cholesky factor lower triangular with positive diagonal): the
    # wrappers' own guarantees are C11's subject, unwrap-transparency is C12's
    d = unwrap(f64(mkd()))
    leaves, mk, paths = leaves_of(d)
    syms = [symarr(f"p{i}", l.shape) for i, l in enumerate(leaves)]
    pre = []
    for sy, pth in zip(syms, paths):
        if pth.endswith(".scale") or pth.endswith(".df"):
            pre += [v > 0 for v in sy.ravel()]
        if pth.endswith(".triangular"):
            n_ = sy.shape[0]
            for i in range(n_):
                for k in range(n_):
                    if k > i:
                        sy[i, k] = Fraction(0)
                pre.append(sy[i, i] > 0)
    x = symarr("x", d.shape)
    out = []
    ctx = Ctx()
    I = Interp(ctx)
    set_path(pre, ctx.facts)
    base = name.split("(")[0]

    def acc(fn):
        return I.run(trace(lambda ls: fn(mk(ls)), leaves), *syms)[0]
    lp = I.run(trace(lambda ls, xv: mk(ls).log_prob(xv), leaves, jnp.zeros(d.shape)), *syms, x)[0][()]
    F = Fraction
    A, S, M, D, LOG, EXP = jx.add, jx.sub, jx.mul, (lambda a, b: jx.div(ctx, a, b)), (lambda a: jx.slog(ctx, a)), (lambda a: jx.sexp(ctx, a))
    support = []
    ref = F(0)
    if kind == "locscale":
        loc, sc = acc(lambda m: m.loc), acc(lambda m: m.scale)
        loc, sc = np.broadcast_to(loc, d.shape), np.broadcast_to(sc, d.shape)
        for idx in np.ndindex(d.shape or ()):
            z = D(S(x[idx], loc[idx]), sc[idx])
            ref = A(ref, S(_std_logpdf(ctx, base, z, jx), LOG(sc[idx])))
    elif kind == "lognormal":
        # parameters of the underlying normal are the Affine of the chain
        loc, sc = acc(lambda m: m.bijection.bijections[0].loc), acc(lambda m: unwrap(m.bijection.bijections[0].scale))
        for idx in np.ndindex(d.shape):
            support.append(x[idx] > 0)
            lx = LOG(x[idx])
            z = D(S(lx, loc[idx]), sc[idx])
            ref = A(ref, S(S(_std_logpdf(ctx, "Normal", z, jx), LOG(sc[idx])), lx))
    elif kind == "uniform":
        lo, hi = acc(lambda m: m.minval), acc(lambda m: m.maxval)
        for idx in np.ndindex(d.shape):
            support += [x[idx] >= toreal(split(lo[idx])[0]), x[idx] <= toreal(split(hi[idx])[0])]
            ref = S(ref, LOG(S(hi[idx], lo[idx])))
    elif kind == "studentt":
        loc, sc, df = acc(lambda m: m.loc), acc(lambda m: m.scale), acc(lambda m: m.df)
        LG = ctx.ufun("UF_lgamma", z3.RealSort(), z3.RealSort())
        lg = lambda a: LG(toreal(split(a)[0]))
        for idx in np.ndindex(d.shape):
            z = D(S(x[idx], loc[idx]), sc[idx])
            nu = df[idx]
            t = S(S(lg(D(A(nu, F(1)), F(2))), lg(D(nu, F(2)))), M(F(1, 2), LOG(M(nu, _pi()))))
            t = S(t, M(D(A(nu, F(1)), F(2)), LOG(A(F(1), D(M(z, z), nu)))))
            ref = A(ref, S(t, LOG(sc[idx])))
    elif kind == "exponential":
        rate = acc(lambda m: m.rate)
        for idx in np.ndindex(d.shape):
            support.append(x[idx] >= 0)
            ref = A(ref, S(LOG(rate[idx]), M(rate[idx], x[idx])))
    elif kind == "mvn":
        loc = acc(lambda m: m.loc)
        L = acc(lambda m: unwrap(m.bijection.triangular))
        n = d.shape[0]
        # solve L y = x - mu by forward substitution
        y = [None] * n
        for i in range(n):
            s_ = S(x[i], loc[i])
            for k in range(i):
                s_ = S(s_, M(L[i, k], y[k]))
            y[i] = D(s_, L[i, i])
        for i in range(n):
            ref = A(ref, S(S(jx.neg(D(M(y[i], y[i]), F(2))), LOG(L[i, i])), M(F(1, 2), LOG(M(F(2), _pi())))))
    set_path(None)
    lt, lo_, li = split(lp)
    rt, ro, ri = split(ref)
    okr = jx.band(ro, ri == 0)
    assume = pre + [toz(s_) for s_ in support] + ([okr] if jx.is_z(okr) else [])
    nm = f"C05/{name}: log_prob == textbook log-density inside the support (|difference| <= 1e-9), summed over independent dimensions"
    goal = z3.And(toz(jx.band(lo_, li == 0)), toreal(lt) - toreal(rt) <= jx.toreal(TOL), toreal(rt) - toreal(lt) <= jx.toreal(TOL))
    st, m = "unknown", None
    okl = jx.band(lo_, li == 0)
    stl, _ = check(ctx, assume, toz(okl), name=nm + ":defined") if okl is not True else ("unsat", None)
    if stl == "unsat":
        # exact equality first (exp-goal tactic applies), then the 1e-9 tolerance form (absorbs float literals such as log(2*pi)/2)
        st, m = jx.prove_eq(ctx, assume, lt, rt, name=nm + ":exact", timeout=30_000)
    if st != "unsat":
        st, m = check(ctx, assume, goal, name=nm, timeout=60_000)
    if st == "unsat":
        out.append(rec(nm, "discharged", vacuity=True))
    else:
        ok, msg = replay_family(name)
        out.append(rec(nm, "violation" if ok else "inconclusive", detail=f"{st} {m.as_dict() if m else ''} | replay vs scipy.stats: {msg}",
                       replay=dict(func="c05:replay_family", kwargs=dict(name=name))))
    # outside the support: -inf, never NaN
    if kind in ("uniform", "exponential"):
        outside = z3.Not(z3.And(*[toz(s_) for s_ in support]))
        if kind == "uniform":
            lo, hi = acc(lambda m: m.minval), acc(lambda m: m.maxval)
        nm2 = f"C05/{name}: log_prob is -inf (never NaN) outside the support"
        g2 = z3.And(toz(jx.band(lo_ if not jx.is_z(li) else True, True)), toz(li) == -1) if True else None
        st, m = check(ctx, pre + [outside], toz(li) == -1 if jx.is_z(li) else z3.BoolVal(li == -1), name=nm2)
        if st == "unsat":
            out.append(rec(nm2, "discharged"))
        else:
            ok, msg = replay_family(name)
            out.append(rec(nm2, "violation" if ok else "inconclusive", detail=f"{st} | replay: {msg}", replay=dict(func="c05:replay_family", kwargs=dict(name=name))))
    # structural: the public log_prob ends in where(isnan(v), -inf, v)  => never NaN
    jl = trace(lambda ls, xv: mk(ls).log_prob(xv), leaves, jnp.zeros(d.shape))
    last = jl.jaxpr.eqns[-1]
    tail = [e.primitive.name for e in jl.jaxpr.eqns[-3:]]
    structural = any(e.primitive.name in ("select_n", "jit") for e in jl.jaxpr.eqns[-2:]) and any("ne" == e.primitive.name or "is" in e.primitive.name for e in jl.jaxpr.eqns[-4:])
    nm3 = f"C05/{name}: log_prob output is structurally select(isnan(v), -inf, v)"
    out.append(rec(nm3, "discharged" if structural else "inconclusive", detail=str(tail), nontrivial=False))
    # sampler structure: sample(key) == loc + scale * base sample(key)   (distribution of the draws itself is not decided)
    if kind == "locscale":
        key = symarr("k", (2,), z3.IntSort())
        s1 = I.run(trace(lambda ls, k: mk(ls).sample(k), leaves, jr.PRNGKey(0)), *syms, key)[0]
        s2 = I.run(trace(lambda ls, k: mk(ls).loc + mk(ls).scale * mk(ls).base_dist.sample(k), leaves, jr.PRNGKey(0)), *syms, key)[0]
        from ..bij import eq_goal
        from ..sym import all_ok
        strip = np.vectorize(lambda v: jx.split(v)[0], otypes=[object])
        asm = [o for o in (all_ok(s1), all_ok(s2)) if jx.is_z(o)]
        st, m, where = eq_goal(ctx, asm, strip(s1), strip(s2), "sample")
        nm4 = f"C05/{name}: sample(key) == loc + scale * standard sample(key)"
        out.append(rec(nm4, "discharged" if st == "unsat" else "inconclusive", detail="" if st == "unsat" else f"{st} at {where}"))
    return out


def replay_family(name):
    """float64 comparison with scipy.stats on a grid inside / on the edge of / outside the support"""
    import jax
    jax.config.update("jax_enable_x64", True)
    import jax.numpy as jnp
    import scipy.stats as ss
    from ..sym import f64
    mkd, kind = _fam()[name]
    d = f64(mkd())
    base = name.split("(")[0]
    from flowjax.wrappers import unwrap
    bad = []
    pts = [-3.0, -1.0, -0.2, 0.0, 0.5, 1.0, 2.0, 2.5, 3.0, 7.0]
    for p0 in pts:
        for p1 in (p0, 0.7):
            x = np.array(p0) if d.shape == () else np.array([p0, p1]) if d.shape == (2,) else np.array([[p0, p1], [p1 - 0.3, p0 + 0.4]])
            got = float(d.log_prob(jnp.asarray(x)))
            if kind == "locscale":
                loc, sc = np.broadcast_to(np.asarray(d.loc), d.shape), np.broadcast_to(np.asarray(d.scale), d.shape)
                fam = {"Normal": ss.norm, "Gumbel": ss.gumbel_r, "Cauchy": ss.cauchy, "Laplace": ss.laplace, "Logistic": ss.logistic}[base]
                want = float(np.sum(fam.logpdf(x, loc, sc)))
            elif kind == "lognormal":
                a = unwrap(d.bijection.bijections[0])
                want = float(np.sum(ss.lognorm.logpdf(x, s=np.asarray(a.scale), scale=np.exp(np.asarray(a.loc)))))
            elif kind == "uniform":
                want = float(np.sum(ss.uniform.logpdf(x, np.asarray(d.minval), np.asarray(d.maxval) - np.asarray(d.minval))))
            elif kind == "studentt":
                want = float(np.sum(ss.t.logpdf(x, np.asarray(d.df), np.asarray(d.loc), np.asarray(d.scale))))
            elif kind == "exponential":
                want = float(np.sum(ss.expon.logpdf(x, scale=1 / np.asarray(d.rate))))
            else:
                want = float(ss.multivariate_normal.logpdf(x, np.asarray(d.loc), np.asarray(d.covariance)))
            if math.isnan(got) or (math.isinf(want) and not (math.isinf(got) and got < 0)) or (not math.isinf(want) and abs(got - want) > 1e-8 * (1 + abs(want))):
                bad.append(f"x={x.tolist()}: log_prob={got} scipy={want}")
    return bool(bad), "; ".join(bad[:3]) or "agrees with scipy.stats on the replay grid"


def ob_mixture():
    import jax
    jax.config.update("jax_enable_x64", True)
    import jax.numpy as jnp
    import equinox as eqx
    import flowjax.distributions as fd
    from .. import jx
    from ..jx import Ctx, Interp, set_path, check, split, toreal, toz
    from ..sym import f64, leaves_of, symarr, trace
    comp = eqx.filter_vmap(fd.Normal)(jnp.array([0.0, 1.5]), jnp.array([1.0, 0.5]))
    mix = f64(fd.VmapMixture(comp, jnp.array([1.0, 3.0])))
    leaves, mk, paths = leaves_of(mix)
    syms = [symarr(f"p{i}", l.shape) for i, l in enumerate(leaves)]
    widx = [i for i, p in enumerate(paths) if "log_normalized_weights" in p][0]
    x = symarr("x", ())
    out = []
    # (a) combination step with ARBITRARY component log-densities l_i (stub component distribution returning its parameter):
    #     exp(log_prob) == sum_i softmax(raw)_i * exp(l_i)
    from typing import ClassVar

    class ConstLP(fd.AbstractDistribution):
        l: jax.Array
        shape: ClassVar[tuple] = ()
        cond_shape: ClassVar[None] = None

        def _log_prob(self, x, condition=None):
            return self.l

        def _sample(self, key, condition=None):
            return self.l
    stub = f64(fd.VmapMixture(ConstLP(jnp.array([0.1, -0.3])), jnp.array([1.0, 3.0])))
    sl, smk, sp = leaves_of(stub)
    ssyms = [symarr(f"q{i}", l_.shape) for i, l_ in enumerate(sl)]
    lidx = [i for i, p_ in enumerate(sp) if p_.endswith(".l")][0]
    ridx = [i for i, p_ in enumerate(sp) if "log_normalized_weights" in p_][0]
    lvec, raw = ssyms[lidx], ssyms[ridx]
    for mx, top in [(a_, b_) for a_ in range(2) for b_ in range(2)]:
        ctx = Ctx()
        I = Interp(ctx)
        assume = [raw[mx] >= raw[1 - mx]]
        # which summand of the logsumexp is larger: l_i + log_softmax(raw)_i  (log_softmax_i = raw_i - raw_mx - log(sum)), so compare l_i + raw_i
        assume.append((lvec[0] + raw[0] >= lvec[1] + raw[1]) if top == 0 else (lvec[1] + raw[1] > lvec[0] + raw[0]))
        set_path(assume, ctx.facts)
        lp = I.run(trace(lambda ls, xv: smk(ls).log_prob(xv), sl, jnp.zeros(())), *ssyms, x)[0][()]
        set_path(None)
        E = lambda v: jx.sexp(ctx, v)
        w0, w1 = E(raw[0]), E(raw[1])
        lhs = E(lp)
        rhs = jx.div(ctx, jx.add(jx.mul(w0, E(lvec[0])), jx.mul(w1, E(lvec[1]))), jx.add(w0, w1))
        lt, lo_, li = split(lhs)
        rt, ro, ri = split(rhs)
        nm = f"C05/VmapMixture (max raw weight at {mx}, larger summand {top}): exp(log_prob) == sum_i softmax(w)_i exp(l_i) for arbitrary component log-densities l_i"
        st, m = check(ctx, assume, z3.And(toz(jx.band(lo_, li == 0)), toreal(lt) == toreal(rt)), name=nm, timeout=60_000)
        out.append(rec(nm, "discharged" if st == "unsat" else "inconclusive", detail="" if st == "unsat" else st))
    # (b) the summands are the component log-densities at x plus the normalised log-weights
    ctx = Ctx()
    I = Interp(ctx)
    set_path([], ctx.facts)
    from flowjax.wrappers import unwrap as _uw
    terms = I.run(trace(lambda ls, xv: eqx.filter_vmap(lambda d_: d_._log_prob(xv))(_uw(mk(ls)).dist) + _uw(mk(ls)).log_normalized_weights, leaves, jnp.zeros(())), *syms, x)[0]

    def comp_lp(ls, xv, k):
        m = _uw(mk(ls))
        c = jax.tree_util.tree_map(lambda l_: l_[k] if eqx.is_array(l_) else l_, m.dist)
        return c.log_prob(xv) + m.log_normalized_weights[k]
    refs = [I.run(trace(lambda ls, xv, k=k: comp_lp(ls, xv, k), leaves, jnp.zeros(())), *syms, x)[0][()] for k in range(2)]
    set_path(None)
    from ..bij import eq_goal
    from ..sym import all_ok
    strip = np.vectorize(lambda v: jx.split(v)[0], otypes=[object])
    refa = np.array(refs, dtype=object)
    asm = [o for o in (all_ok(terms), all_ok(refa)) if jx.is_z(o)]
    st, m, where = eq_goal(ctx, asm, strip(terms), strip(refa), "mixture summands")
    out.append(rec("C05/VmapMixture: summand k of the logsumexp == log-density of component k at x + normalised log-weight k", "discharged" if st == "unsat" else "inconclusive",
                   detail="" if st == "unsat" else f"{st} at {where}"))
    # invariance under rescaling of the weights (constructor): log_normalized_weights(c*w) == log_normalized_weights(w)
    w = symarr("w", (2,))
    cfac = z3.Real("cfac")
    ctx = Ctx()
    I = Interp(ctx)
    assume = [w[0] > 0, w[1] > 0, cfac > 0, w[0] >= w[1]]
    set_path(assume, ctx.facts)
    from flowjax.wrappers import unwrap
    f = lambda w_: unwrap(fd.VmapMixture(comp, w_)).log_normalized_weights
    a = I.run(trace(f, jnp.ones(2)), w)[0]
    b = I.run(trace(f, jnp.ones(2)), np.array([w[0] * cfac, w[1] * cfac], dtype=object))[0]
    set_path(None)
    from ..bij import eq_goal
    st, m, where = eq_goal(ctx, assume, b, a, "mixture invariance")
    out.append(rec("C05/VmapMixture: normalised weights invariant under rescaling w -> c*w (c > 0)", "discharged" if st == "unsat" else "inconclusive", detail="" if st == "unsat" else f"{st} at {where}"))
    return out


def _key_dists():
    import jax.numpy as jnp
    import jax.random as jr
    import equinox as eqx
    import flowjax.distributions as fd
    import flowjax.bijections as fb
    from flowjax import flows
    D = {nm: mk for nm, (mk, _) in _fam().items()}
    D["VmapMixture(Normal x2)"] = lambda: fd.VmapMixture(eqx.filter_vmap(fd.Normal)(jnp.array([0.0, 1.5]), jnp.array([1.0, 0.6])), jnp.array([1.0, 3.0]))
    D["VmapMixture(Laplace x3, event (2,))"] = lambda: fd.VmapMixture(eqx.filter_vmap(lambda l: fd.Laplace(l, jnp.ones(2)))(jnp.arange(6.0).reshape(3, 2)), jnp.array([1.0, 2.0, 3.0]))
    D["Transformed(StudentT, Affine)"] = lambda: fd.Transformed(fd.StudentT(jnp.array([3.0]), jnp.array([0.3]), jnp.array([1.5])), fb.Affine(jnp.array([0.5]), jnp.array([2.0])))
    D["coupling_flow(cond)"] = lambda: flows.coupling_flow(jr.PRNGKey(0), base_dist=fd.StandardNormal((2,)), cond_dim=1, flow_layers=1, nn_width=2)
    return D


def ob_keys(names):
    """sampler key hygiene (a necessary condition for 'samples follow the density'): within one call of sample / sample_and_log_prob no PRNG key
    is consumed by two different draws or both drawn from and split - decided on the symbolic interpretation (keys are uninterpreted terms,
    derived keys from different split slots are different terms), for an arbitrary user key"""
    import jax
    jax.config.update("jax_enable_x64", True)
    import jax.numpy as jnp
    import jax.random as jr
    from .. import jx
    from ..jx import Ctx, Interp, set_path
    from ..sym import symarr, trace
    out = []
    D = _key_dists()
    for nm in names:
        d = D[nm]()
        key = symarr("k", (2,), z3.IntSort())
        cex = [] if d.cond_shape is None else [jnp.zeros(d.cond_shape)]
        for meth, f in (("sample(key, (2,))", lambda k, *cc: d.sample(k, (2,), *cc)), ("sample_and_log_prob(key)", lambda k, *cc: d.sample_and_log_prob(k, (), *cc))):
            name = f"C05/{nm}.{meth}: no PRNG key is consumed twice (every draw and every split uses its own derived key)"
            ctx = Ctx()
            I = Interp(ctx)
            set_path([], ctx.facts)
            try:
                I.run(trace(f, jr.PRNGKey(0), *cex), key, *[jx.oarr(np.asarray(x)) for x in cex])
            except jx.Unsupported as e:
                set_path(None)
                out.append(rec(name, "error", detail=f"unsupported: {e}"))
                continue
            set_path(None)
            dup = jx.reused_keys(ctx)
            if not dup:
                out.append(rec(name, "discharged", nontrivial=len(ctx.key_uses) > 1, detail=f"{len(ctx.key_uses)} key consumptions, pairwise distinct key terms"))
            else:
                ok, msg = replay_keys(nm)
                out.append(rec(name, "violation" if ok else "inconclusive", detail=f"key term {dup[0][2]},{dup[0][3]} is consumed by {dup[0][0]} and again by {dup[0][1]} | {msg}",
                               replay=dict(func="c05:replay_keys", kwargs=dict(nm=nm))))
    return out


def replay_keys(nm):
    """the REAL traced sampler executed concretely, equation by equation with JAX's own primitive implementations (jit wrappers entered), recording
    the key data handed to every random_bits / random_split: the same concrete key reaching two different applications is a reuse"""
    import jax
    import jax.numpy as jnp
    import jax.random as jr
    d = _key_dists()[nm]()
    cex = [] if d.cond_shape is None else [jnp.zeros(d.cond_shape)]
    bad = []
    for meth, f in (("sample", lambda k, *cc: d.sample(k, (2,), *cc)), ("sample_and_log_prob", lambda k, *cc: d.sample_and_log_prob(k, (), *cc))):
        for s_ in range(2):
            k = jr.key(s_) if hasattr(jr, "key") else jr.PRNGKey(s_)
            k = jr.PRNGKey(s_)
            closed = jax.make_jaxpr(f)(k, *cex)
            uses = []

            def run(jaxpr, consts, *args):
                env = {}

                def read(v):
                    return v.val if hasattr(v, "val") else env[v]
                for v, c in zip(jaxpr.constvars, consts):
                    env[v] = c
                for v, a in zip(jaxpr.invars, args):
                    env[v] = a
                for e in jaxpr.eqns:
                    ins = [read(v) for v in e.invars]
                    pn = e.primitive.name
                    if pn == "custom_jvp_call" and "call_jaxpr" in e.params:
                        cj = e.params["call_jaxpr"]
                        outs = run(cj.jaxpr, cj.consts, *ins)
                        for v, o in zip(e.outvars, outs):
                            env[v] = o
                        continue
                    if pn in ("jit", "pjit", "closed_call") and "jaxpr" in e.params:
                        cj = e.params["jaxpr"]
                        outs = run(cj.jaxpr, cj.consts, *ins)
                    else:
                        if pn in ("random_bits", "random_split"):
                            kd = np.asarray(jr.key_data(ins[0]) if jnp.issubdtype(ins[0].dtype, jax.dtypes.prng_key) else ins[0]).reshape(-1, 2)
                            for row in kd:
                                uses.append((pn, id(e), tuple(int(q) for q in row)))
                        bp = e.primitive.get_bind_params(e.params)
                        if isinstance(bp, tuple):      # older JAX: (subfuns, params)
                            outs = e.primitive.bind(*bp[0], *ins, **bp[1])
                        else:
                            outs = e.primitive.bind(*ins, **bp)
                        if not e.primitive.multiple_results:
                            outs = [outs]
                    for v, o in zip(e.outvars, outs):
                        env[v] = o
                return [read(v) for v in jaxpr.outvars]
            try:
                run(closed.jaxpr, closed.consts, k, *cex)
            except Exception as e:  # noqa
                return False, f"concrete evaluation failed: {type(e).__name__}: {str(e)[:150]}"
            seen = {}
            for pn, eid, kd in uses:
                if kd in seen and seen[kd] != eid:
                    bad.append(f"{meth} with PRNGKey({s_}): key data {kd} reaches two different random primitive applications")
                    break
                seen.setdefault(kd, eid)
    return bool(bad), "; ".join(bad[:2]) or "every key is consumed once in the concrete execution of the real sampler"


def ob_accessors():
    """'their parameter accessors return what the constructor was given': the constructor round trips of C11 (raw parameterisation, exp overflow
    modelled), reported under C05 as well"""
    from . import c11
    out = []
    for r in c11.ob_roundtrips():
        r = dict(r)
        r["name"] = r["name"].replace("C11/", "C05/accessors/")
        out.append(r)
    return out


def _chunks(xs, n):
    return [xs[i:i + n] for i in range(0, len(xs), n)]


def obligations(tier, seed):
    names = ["Normal", "Normal()", "Normal(bcast)", "LogNormal", "Uniform", "Gumbel", "Cauchy", "StudentT", "Laplace", "Exponential", "Logistic", "MultivariateNormal",
             "Normal(2x2)", "Gumbel(2x2)", "Cauchy(2x2)", "Laplace(2x2)", "Logistic(2x2)", "Cauchy(bcast 2x2)"]
    return [dict(name=n, func="c05:ob_family", kwargs=dict(name=n), cost=3, replay=dict(func="c05:replay_family", kwargs=dict(name=n))) for n in names] + [dict(name="mixture", func="c05:ob_mixture", kwargs={}, cost=5), dict(name="accessors", func="c05:ob_accessors", kwargs={}, cost=5)] + \
        [dict(name=f"keys/{i}", func="c05:ob_keys", kwargs=dict(names=chunk), cost=4) for i, chunk in enumerate(_chunks(list(_key_dists()), 4))]
