"""C06 - batched calls equal elementwise unbatched calls with NumPy broadcasting (E1: batched trace vs unbatched trace on NumPy-picked slices)."""
from __future__ import annotations

import itertools

import numpy as np
import z3

from ..core import rec

META = dict(
    files=["flowjax/distributions.py", "flowjax/utils.py", "flowjax/bijections/bijection.py"],
    functions=["AbstractDistribution.log_prob / sample / sample_and_log_prob (jnp.vectorize with the gufunc signature from _get_ufunc_signature)", "_get_sample_keys", "_vectorize / _check_shapes"],
    trusted_base=["vlib/jx.py; random primitives uninterpreted (element i must be F(split(key, n)[i]) by congruence)", "NumPy (not jnp) broadcasting picks the reference slices", "z3 5.1.0"],
    assumptions=["floats as exact reals", "independence of the draws is modelled as: every output element uses its own row of split(key, n) (distinct slot per element); statistical independence of jax.random itself is trusted"],
    bounds=dict(quick="event (2,) cond (1,); scalar event with scalar condition; unconditional (2,): x batch and condition batch in {(),(1,),(2,),(2,1),(1,2)}, sample_shape in {(),(2,),(2,1)}",
                thorough="plus a conditional coupling flow and rank-2 events"),
)

BATCHES = [(), (1,), (2,), (2, 1), (1, 2)]
SAMPLE_SHAPES = [(), (2,), (2, 1)]


def _dists():
    import jax.numpy as jnp
    import jax.random as jr
    import equinox as eqx
    import flowjax.bijections as fb
    import flowjax.distributions as fd
    from flowjax import flows
    lin = eqx.nn.Linear(1, 2, key=jr.PRNGKey(3))
    return {
        "cond(2|1)": lambda: fd.Transformed(fd.Normal(jnp.array([0.3, -0.2]), jnp.array([1.5, 0.7])), fb.AdditiveCondition(lin, (2,), (1,))),
        "scalar|scalar": lambda: fd.Transformed(fd.Normal(jnp.array(0.3), jnp.array(1.5)), fb.AdditiveCondition(lambda c_: 2.0 * c_, (), ())),
        "uncond(2)": lambda: fd.Normal(jnp.array([0.3, -0.2]), jnp.array([1.5, 0.7])),
        "coupling(2|1)": lambda: flows.coupling_flow(jr.PRNGKey(2), base_dist=fd.StandardNormal((2,)), cond_dim=1, flow_layers=1, nn_width=2),
    }


def _bshape(a, b):
    try:
        return tuple(np.broadcast_shapes(a, b))
    except ValueError:
        return None


def ob_logprob(name):
    import jax
    jax.config.update("jax_enable_x64", True)
    import jax.numpy as jnp
    from .. import jx
    from ..jx import Ctx, Interp, set_path
    from ..sym import f64, leaves_of, symarr, trace
    from ..bij import eq_goal
    d = f64(_dists()[name]())
    leaves, mk, paths = leaves_of(d)
    syms = [symarr(f"p{i}", l.shape) for i, l in enumerate(leaves)]
    ev, cs = tuple(d.shape), (None if d.cond_shape is None else tuple(d.cond_shape))
    out = []
    bad = []
    n_cmp = 0
    ctx = Ctx()
    I = Interp(ctx)
    set_path([], ctx.facts)
    if cs is None:
        j1 = trace(lambda ls, xv: mk(ls).log_prob(xv), leaves, jnp.zeros(ev))
    else:
        j1 = trace(lambda ls, xv, cv: mk(ls).log_prob(xv, cv), leaves, jnp.zeros(ev), jnp.zeros(cs))
    combos = [(bx, bc) for bx in BATCHES for bc in (BATCHES if cs is not None else [()])]
    for bx, bc in combos:
        ob = _bshape(bx, bc)
        x = symarr("x", bx + ev)
        c = None if cs is None else symarr("c", bc + cs)
        try:
            if cs is None:
                jb = trace(lambda ls, xv: mk(ls).log_prob(xv), leaves, jnp.zeros(bx + ev))
                res = I.run(jb, *syms, x)[0]
            else:
                jb = trace(lambda ls, xv, cv: mk(ls).log_prob(xv, cv), leaves, jnp.zeros(bx + ev), jnp.zeros(bc + cs))
                res = I.run(jb, *syms, x, c)[0]
            raised = None
        except Exception as e:  # noqa
            raised = f"{type(e).__name__}: {str(e)[:100]}"
        if ob is None:
            if raised is None:
                bad.append(f"x batch {bx} and condition batch {bc} do not broadcast but the call succeeded")
            continue
        if raised is not None:
            bad.append(f"x batch {bx}, condition batch {bc}: raised {raised}")
            continue
        if tuple(res.shape) != ob:
            bad.append(f"x batch {bx}, condition batch {bc}: result shape {res.shape}, NumPy broadcasting gives {ob}")
            continue
        # reference slices picked by NumPy broadcasting of index arrays
        xi = np.broadcast_to(np.arange(int(np.prod(bx)) if bx else 1).reshape(bx), ob)
        ci = np.broadcast_to(np.arange(int(np.prod(bc)) if bc else 1).reshape(bc), ob) if cs is not None else None
        xf = x.reshape((-1,) + ev)
        cf = None if cs is None else c.reshape((-1,) + cs)
        for idx in np.ndindex(ob):
            xs = xf[int(xi[idx])]
            if cs is None:
                ref = I.run(j1, *syms, xs)[0]
            else:
                ref = I.run(j1, *syms, xs, cf[int(ci[idx])])[0]
            n_cmp += 1
            a, b = jx.split(res[idx])[0], jx.split(ref[()])[0]
            same = (jx.is_z(a) and jx.is_z(b) and a.eq(b)) or (not jx.is_z(a) and not jx.is_z(b) and a == b)
            if not same:
                st, m, where = eq_goal(ctx, [], jx.oarr_s(a), jx.oarr_s(b), "batched element")
                if st != "unsat":
                    bad.append(f"x batch {bx}, condition batch {bc}: element {idx} differs from the unbatched call on its slice")
                    break
    set_path(None)
    nm = f"C06/{name}: batched log_prob == unbatched log_prob on every NumPy-broadcast slice; result shape == broadcast of the batch shapes ({len(combos)} batch-shape pairs, {n_cmp} elements)"
    if bad:
        ok, msg = replay(name, "log_prob")
        return [rec(nm, "violation" if ok else "inconclusive", detail="; ".join(bad[:3]) + " | replay: " + msg, replay=dict(func="c06:replay", kwargs=dict(name=name, kind="log_prob")))]
    return [rec(nm, "discharged", vacuity=n_cmp > 0, sample=dict(batch_pairs=len(combos), elements=n_cmp))]


def ob_sample(name):
    import jax
    jax.config.update("jax_enable_x64", True)
    import jax.numpy as jnp
    import jax.random as jr
    from flowjax.wrappers import unwrap
    from .. import jx
    from ..jx import Ctx, Interp, set_path
    from ..sym import f64, leaves_of, symarr, trace
    from ..bij import eq_goal
    d = f64(_dists()[name]())
    leaves, mk, paths = leaves_of(d)
    syms = [symarr(f"p{i}", l.shape) for i, l in enumerate(leaves)]
    ev, cs = tuple(d.shape), (None if d.cond_shape is None else tuple(d.cond_shape))
    key = symarr("k", (2,), z3.IntSort())
    kex = jr.PRNGKey(0)
    bad = []
    n_cmp = 0
    ctx = Ctx()
    I = Interp(ctx)
    set_path([], ctx.facts)
    # unbatched private call with an explicit key
    if cs is None:
        j1 = trace(lambda ls, k: unwrap(mk(ls))._sample_and_log_prob(k), leaves, kex)
    else:
        j1 = trace(lambda ls, k, cv: unwrap(mk(ls))._sample_and_log_prob(k, cv), leaves, kex, jnp.zeros(cs))
    for ss in SAMPLE_SHAPES:
        for bc in (BATCHES if cs is not None else [()]):
            oshape = ss + bc
            n = max(1, int(np.prod(oshape)))
            c = None if cs is None else symarr("c", bc + cs)
            try:
                if cs is None:
                    js = trace(lambda ls, k: mk(ls).sample(k, ss), leaves, kex)
                    jsl = trace(lambda ls, k: mk(ls).sample_and_log_prob(k, ss), leaves, kex)
                    s1 = I.run(js, *syms, key)[0]
                    s2, lp2 = I.run(jsl, *syms, key)
                    s1b = I.run(js, *syms, key)[0]
                else:
                    js = trace(lambda ls, k, cv: mk(ls).sample(k, ss, cv), leaves, kex, jnp.zeros(bc + cs))
                    jsl = trace(lambda ls, k, cv: mk(ls).sample_and_log_prob(k, ss, cv), leaves, kex, jnp.zeros(bc + cs))
                    s1 = I.run(js, *syms, key, c)[0]
                    s2, lp2 = I.run(jsl, *syms, key, c)
                    s1b = I.run(js, *syms, key, c)[0]
            except Exception as e:  # noqa
                bad.append(f"sample_shape {ss}, condition batch {bc}: raised {type(e).__name__}: {str(e)[:80]}")
                continue
            if tuple(s1.shape) != oshape + ev or tuple(lp2.shape) != oshape or tuple(s2.shape) != oshape + ev:
                bad.append(f"sample_shape {ss}, condition batch {bc}: shapes {s1.shape}/{lp2.shape}, documented {oshape + ev}/{oshape}")
                continue
            # same key => same result (two interpretations of the same trace give identical terms)
            if not all((jx.is_z(jx.split(a)[0]) and jx.split(a)[0].eq(jx.split(b)[0])) or a is b for a, b in zip(s1.ravel(), s1b.ravel())):
                bad.append(f"sample_shape {ss}, condition batch {bc}: repeated call with the same key gives different terms")
            # element i uses row i of split(key, n): keys = reshape(split(key, n), oshape + (2,))
            keys = I.run(trace(lambda k: jr.split(k, n), kex), key)[0].reshape(oshape + (2,))
            cf = None if cs is None else np.broadcast_to(c.reshape(bc + cs), ss + bc + cs) if True else None
            for idx in np.ndindex(oshape):
                if cs is None:
                    rs, rl = I.run(j1, *syms, keys[idx])
                else:
                    rs, rl = I.run(j1, *syms, keys[idx], cf[idx])
                n_cmp += 1
                for got, want in ((s1[idx], rs), (s2[idx], rs), (lp2[idx], rl)):
                    g = np.asarray(got, dtype=object)
                    w = np.asarray(want, dtype=object)
                    strip = np.vectorize(lambda v: jx.split(v)[0], otypes=[object])
                    ga, wa = strip(g), strip(w)
                    same = all((jx.is_z(a) and jx.is_z(b) and a.eq(b)) or (not jx.is_z(a) and not jx.is_z(b) and a == b) for a, b in zip(ga.ravel(), wa.ravel()))
                    if not same:
                        st, m, where = eq_goal(ctx, [], ga, wa, "sample element")
                        if st != "unsat":
                            bad.append(f"sample_shape {ss}, condition batch {bc}: element {idx} is not the unbatched draw for its own key split(key,{n})[{int(np.ravel_multi_index(idx, oshape)) if oshape else 0}]")
                            break
                else:
                    continue
                break
    set_path(None)
    nm = f"C06/{name}: sample / sample_and_log_prob have shape sample_shape + condition batch + event, element i == unbatched draw with its own key split(key, n)[i], same key => same result ({n_cmp} elements)"
    if bad:
        ok, msg = replay(name, "sample")
        return [rec(nm, "violation" if ok else "inconclusive", detail="; ".join(bad[:3]) + " | replay: " + msg, replay=dict(func="c06:replay", kwargs=dict(name=name, kind="sample")))]
    return [rec(nm, "discharged", vacuity=n_cmp > 0, sample=dict(elements=n_cmp))]


def replay(name, kind):
    """concrete float64 run of the real distribution: batched vs python loop over NumPy-broadcast slices; distinct draws per element"""
    import jax
    jax.config.update("jax_enable_x64", True)
    import jax.numpy as jnp
    import jax.random as jr
    from ..sym import f64
    d = f64(_dists()[name]())
    ev, cs = tuple(d.shape), (None if d.cond_shape is None else tuple(d.cond_shape))
    bad = []
    rng = np.random.default_rng(0)
    if kind == "log_prob":
        for bx in BATCHES:
            for bc in (BATCHES if cs is not None else [()]):
                ob = _bshape(bx, bc)
                x = rng.normal(size=bx + ev)
                c = None if cs is None else rng.normal(size=bc + cs)
                try:
                    got = np.asarray(d.log_prob(jnp.asarray(x), None if c is None else jnp.asarray(c)))
                except Exception as e:  # noqa
                    if ob is not None:
                        bad.append(f"x batch {bx} cond batch {bc}: raised {type(e).__name__}")
                    continue
                if ob is None:
                    bad.append(f"non-broadcastable batches {bx},{bc} accepted")
                    continue
                xb = np.broadcast_to(x, ob + ev)
                cb = None if c is None else np.broadcast_to(c, ob + cs)
                want = np.empty(ob)
                for idx in np.ndindex(ob):
                    want[idx] = float(d.log_prob(jnp.asarray(xb[idx]), None if cb is None else jnp.asarray(cb[idx])))
                if got.shape != ob or not np.allclose(got, want, rtol=1e-9, atol=1e-9):
                    bad.append(f"x batch {bx} cond batch {bc}: batched {got.tolist()} vs loop {want.tolist()}")
    else:
        for ss in SAMPLE_SHAPES:
            for bc in (BATCHES if cs is not None else [()]):
                # identical condition rows: any repeated draw across the batch then exposes a shared key
                c = None if cs is None else np.broadcast_to(rng.normal(size=cs), bc + cs).copy()
                k = jr.PRNGKey(4)
                try:
                    s = np.asarray(d.sample(k, ss, None if c is None else jnp.asarray(c)))
                    s2, lp = d.sample_and_log_prob(k, ss, None if c is None else jnp.asarray(c))
                except Exception as e:  # noqa
                    bad.append(f"sample_shape {ss} cond batch {bc}: raised {type(e).__name__}")
                    continue
                if s.shape != ss + bc + ev:
                    bad.append(f"sample_shape {ss} cond batch {bc}: shape {s.shape}")
                    continue
                flat = s.reshape((-1,) + ev).reshape(max(1, int(np.prod(ss + bc))), -1)
                # with a fixed condition the draws for different elements must differ (no repeated key)
                if True:
                    if len({tuple(np.round(r, 12)) for r in flat}) != len(flat):
                        bad.append(f"sample_shape {ss} cond batch {bc}: repeated draws {flat.tolist()}")
                if not np.allclose(np.asarray(s2), s):
                    bad.append(f"sample_shape {ss}: sample_and_log_prob draws differ from sample with the same key")
                if not np.allclose(np.asarray(lp), np.asarray(d.log_prob(jnp.asarray(s), None if c is None else jnp.asarray(c))), rtol=1e-6, atol=1e-6):
                    bad.append(f"sample_shape {ss} cond batch {bc}: returned log-probs differ from log_prob(samples)")
                if cs is not None and int(np.prod(bc)) > 1:
                    # distinct condition rows: element [sample idx, condition idx] must be a draw FOR THAT condition, i.e. the log-prob returned
                    # with it equals log_prob(sample, that condition) and sample() agrees with sample_and_log_prob() for the same key
                    c2 = rng.normal(size=bc + cs) * 3.0
                    try:
                        sa = np.asarray(d.sample(k, ss, jnp.asarray(c2)))
                        sb, lpb = d.sample_and_log_prob(k, ss, jnp.asarray(c2))
                    except Exception as e:  # noqa
                        bad.append(f"sample_shape {ss} cond batch {bc} (distinct conditions): raised {type(e).__name__}")
                        continue
                    want = np.empty(ss + bc)
                    for idx in np.ndindex(ss + bc):
                        cidx = idx[len(ss):]
                        want[idx] = float(d.log_prob(jnp.asarray(np.asarray(sb)[idx]), jnp.asarray(c2[cidx])))
                    if not np.allclose(np.asarray(sb), sa) or not np.allclose(np.asarray(lpb), want, rtol=1e-6, atol=1e-6):
                        bad.append(f"sample_shape {ss} cond batch {bc}: with distinct conditions the element [.., condition j] is not a draw for condition j "
                                   f"(returned log-probs {np.asarray(lpb).ravel()[:4].tolist()} vs log_prob(sample, condition j) {want.ravel()[:4].tolist()})")
    return bool(bad), "; ".join(bad[:3]) or "batched == loop on the replay inputs"


def obligations(tier, seed):
    names = ["cond(2|1)", "scalar|scalar", "uncond(2)"] + (["coupling(2|1)"] if tier != "quick" else [])
    tasks = []
    for n in names:
        tasks.append(dict(name=n + "/log_prob", func="c06:ob_logprob", kwargs=dict(name=n), cost=5))
        tasks.append(dict(name=n + "/sample", func="c06:ob_sample", kwargs=dict(name=n), cost=8))
    return tasks
