"""C15 - fit_to_data never loses, duplicates or misaligns data (E2: real code on fake arrays, symbolic permutations)."""
from __future__ import annotations

import itertools

import z3

from ..core import rec
from ..pysym import rebind

META = dict(
    files=["flowjax/train/data_fit.py", "flowjax/train/train_utils.py"],
    functions=["flowjax.train.data_fit.fit_to_data", "flowjax.train.train_utils.train_val_split", "flowjax.train.train_utils.get_batches.__wrapped__",
               "flowjax.train.train_utils._add_batch"],
    trusted_base=["z3 5.1.0 (linear integer arithmetic, distinctness)",
                  "stub contract for jax.random.permutation: (key, length) |-> one bijection of the rows (same key and length => same permutation), modelled as a SYMBOLIC permutation per key",
                  "stub contract for jax.random.split: fresh pairwise-distinct keys derived from the parent", "list-backed fake arrays implement slicing / reshape / iteration like jnp arrays"],
    assumptions=["dataset / batch sizes are concrete and enumerated; permutations and row tags are symbolic", "both parts non-empty (precondition of the property)"],
    bounds=dict(quick="n in 2..8, batch_size in {1,2,3,n,n+2}, val_prop in {0.1,0.25,0.5,0.75,0.9}, with/without condition, 2 epochs",
                thorough="n in 2..12; batch_size in 1..n+2 for n <= 8, {1,2,3,n//2,n-1,n,n+2} above; val_props plus 0.3; 3 epochs for n <= 7, 2 above"),
)


class FArr:
    """fake array: row i is the z3 term g(i) (g: z3 Int term -> z3 Int term); batches are FArr of FArr"""

    def __init__(self, g, n, shape, items=None):
        self.g = g
        self.n = n
        self.shape = shape
        self.items = items  # for batched arrays: list of FArr

    @property
    def rows(self):
        if self.items is not None:
            return self.items
        return [self.g(z3.IntVal(i)) for i in range(self.n)]

    def __getitem__(self, sl):
        assert isinstance(sl, slice) and self.items is None
        start, stop, stride = sl.indices(self.n)
        assert stride == 1
        g = self.g
        m = max(0, stop - start)
        return FArr(lambda i, g=g, start=start: g(i + start), m, (m,) + self.shape[1:])

    def reshape(self, *shape):
        nb, bs = shape[0], shape[1]
        assert nb * bs == self.n, "reshape size mismatch"
        g = self.g
        items = [FArr(lambda i, g=g, k=k: g(i + k * bs), bs, (bs,) + self.shape[1:]) for k in range(nb)]
        return FArr(None, nb, tuple(shape), items=items)

    def __iter__(self):
        return iter(self.rows)

    def __len__(self):
        return self.n


class World:
    """one execution's stubs and recordings"""

    def __init__(self):
        self.nkeys = 0
        self.perms = {}
        self.constr = []
        self.events = []
        self.perm_calls = []
        W = self

        class Key:
            def __init__(self, parent=None, idx=None):
                W.nkeys += 1
                self.id = W.nkeys
                self.path = ((parent.path if parent else ()) + ((idx,) if idx is not None else ("root",)))
        self.Key = Key

        def permutation(key, a):
            n = a.n
            k = (key.path, n)
            if k not in W.perms:
                nm = f"pi_{'_'.join(map(str, key.path))}_{n}"
                f = z3.Function(nm, z3.IntSort(), z3.IntSort())
                finv = z3.Function(nm + "_inv", z3.IntSort(), z3.IntSort())
                q = z3.Int("q")
                # a bijection of 0..n-1: range + left inverse (injectivity by congruence); instantiated by E-matching on f(q)
                W.constr.append(z3.ForAll([q], z3.Implies(z3.And(q >= 0, q < n), z3.And(f(q) >= 0, f(q) < n, finv(f(q)) == q)), patterns=[f(q)]))
                W.perms[k] = f
            f = W.perms[k]
            g = a.g
            out = FArr(lambda i, g=g, f=f: g(f(i)), n, a.shape)
            W.perm_calls.append((key, a, out))
            return out

        class _jr:
            @staticmethod
            def split(key, num=2):
                return [Key(key, i) for i in range(num)]
        _jr.permutation = staticmethod(permutation)
        self.jr = _jr

        def step(params, static, *batch, optimizer, opt_state, loss_fn, key):
            W.events.append(("train", [b.rows for b in batch], key))
            return params + 1, opt_state, 0.0

        def loss_fn(params, static, *batch, key=None):
            W.events.append(("val", [b.rows for b in batch], key))
            return 0.0
        self.step, self.loss_fn = step, loss_fn


class _Shaped:
    def __getitem__(self, item):
        class _M(type):
            def __instancecheck__(cls, inst):
                return isinstance(inst, FArr)
        return _M("T", (), {})


class _eqx:
    partition = staticmethod(lambda d, *a, **k: (d, None))
    combine = staticmethod(lambda p, s: p)
    is_inexact_array = None


class _opt:
    def init(self, p):
        return None


class _tq:
    def __init__(self, it, disable=True):
        self.it = it
        self.postfix = ""

    def __iter__(self):
        return iter(self.it)

    def set_postfix(self, d):
        pass

    def set_postfix_str(self, s):
        pass


class _jnp:
    asarray = staticmethod(lambda a: a)


def build(W):
    import flowjax.train.data_fit as df
    import flowjax.train.train_utils as tu
    _add_batch = rebind(tu._add_batch)
    get_batches = rebind(tu.get_batches.__wrapped__, _add_batch=_add_batch)
    tvs = rebind(tu.train_val_split, jr=W.jr, Shaped=_Shaped(), Array=None)
    fit = rebind(df.fit_to_data, jnp=_jnp, jr=W.jr, eqx=_eqx, tqdm=_tq, step=W.step, get_batches=get_batches, train_val_split=tvs,
                 count_fruitless=lambda l: 0)
    return fit, tvs


def run_config(n, bs, val_prop, with_cond, epochs):
    """returns list of (obligation name, z3 formula or python bool) plus the world"""
    W = World()
    fit, tvs = build(W)
    x = FArr(lambda i: i, n, (n, 2))
    c = FArr(lambda i: i, n, (n, 1)) if with_cond else None
    root = W.Key()
    fit(root, 0, x, condition=c, loss_fn=W.loss_fn, max_epochs=epochs, max_patience=10 ** 6, batch_size=bs, val_prop=val_prop, optimizer=_opt(), show_progress=False)
    obs = []
    # the split performed inside fit: first permutation calls (one per array) with the same key
    split_calls = [pc for pc in W.perm_calls if pc[1].n == n][: (2 if with_cond else 1)]
    n_val = round(val_prop * n)
    n_train = n - n_val
    perm_x = split_calls[0][2].rows
    train_rows, val_rows = perm_x[:n_train], perm_x[n_train:]
    ev_train = [e for e in W.events if e[0] == "train"]
    ev_val = [e for e in W.events if e[0] == "val"]
    seen_train = [r for e in ev_train for r in e[1][0]]
    seen_val = [r for e in ev_val for r in e[1][0]]
    # 1 partition: every row seen in any epoch is a dataset row; train-epoch rows and val rows are disjoint; together with
    #   the cardinalities below they partition the dataset
    bsz_t, bsz_v = min(bs, n_train), min(bs, n_val)
    per_epoch_t = (n_train // bsz_t) * bsz_t
    per_epoch_v = (n_val // bsz_v) * bsz_v
    obs.append(("cardinality: each epoch uses floor(n_train/bs')*bs' training rows and floor(n_val/bs')*bs' validation rows",
                len(seen_train) == per_epoch_t * epochs and len(seen_val) == per_epoch_v * epochs))
    obs.append(("split sizes: n_train + n_val == n with the documented rounding", len(train_rows) + len(val_rows) == n and len(val_rows) == n_val))
    obs.append(("train and validation parts are disjoint and cover the dataset (all n permuted rows distinct and in range)",
                z3.And(z3.Distinct(*perm_x) if n > 1 else z3.BoolVal(True), *[z3.And(r >= 0, r < n) for r in perm_x])))
    # 2 pairing
    if with_cond:
        pair = [xr == cr for e in W.events for xr, cr in zip(e[1][0], e[1][1])]
        obs.append(("every row handed to the loss pairs x with its own condition row", z3.And(*pair) if pair else True))
        obs.append(("condition batches have the same length as x batches", all(len(e[1][0]) == len(e[1][1]) for e in W.events)))
    # 3 per epoch: training rows pairwise distinct, all from the training part, trailing remainder skipped
    for ep in range(epochs):
        rows = seen_train[ep * per_epoch_t:(ep + 1) * per_epoch_t]
        if len(rows) > 1:
            obs.append((f"epoch {ep}: each training row used at most once", z3.Distinct(*rows)))
        obs.append((f"epoch {ep}: training batches contain only training rows",
                    z3.And(*[z3.Or(*[r == t for t in train_rows]) for r in rows]) if rows else True))
        # the rows used are the leading rows of that epoch's shuffle, in order (only a trailing remainder is dropped)
        stride = 2 if with_cond else 1
        base = stride
        call = W.perm_calls[base + ep * 2 * stride]
        lead = call[2].rows[:per_epoch_t]
        obs.append((f"epoch {ep}: the rows used are the leading rows of the epoch's shuffle of the training part (only a trailing remainder < batch is skipped)",
                    call[1].n == n_train and n_train - per_epoch_t < bsz_t and
                    (z3.And(*[a_ == b_ for a_, b_ in zip(rows, lead)]) if rows else True)))
        obs.append((f"epoch {ep}: the epoch's shuffle permutes exactly the training part",
                    z3.And(*[z3.Or(*[r == t for t in train_rows]) for r in call[2].rows])))
    # 4 validation rows never take part in a gradient step (any epoch)
    leak = [t != v for t in seen_train for v in val_rows]
    obs.append(("validation rows never take part in a gradient step", z3.And(*leak) if leak else True))
    obs.append(("validation batches contain only validation rows", z3.And(*[z3.Or(*[r == v for v in val_rows]) for r in seen_val]) if seen_val else True))
    # 5 keys: fresh per batch, derived from the user's key
    keys = [e[2] for e in W.events]
    obs.append(("every batch gets a fresh key derived from the user key", len({k.path for k in keys}) == len(keys) and all(k.path[0] == "root" and len(k.path) > 1 for k in keys)))
    return W, obs, dict(n_train=n_train, n_val=n_val)


def signature(W):
    """structural signature of everything the loss saw (for the reproducibility obligation)"""
    return [(k, [[str(r) for r in arr] for arr in b], key.path) for k, b, key in W.events]


def ob_config(n, bs_list, val_props, epochs):
    out = []
    nq = 0
    ts = 0.0
    import time
    for bs, vp, with_cond in itertools.product(bs_list, val_props, (True, False)):
        n_val = round(vp * n)
        if n_val == 0 or n_val == n:
            continue  # precondition: both parts non-empty
        name = f"C15/n={n} batch_size={bs} val_prop={vp} condition={with_cond} epochs={epochs}"
        try:
            W, obs, info = run_config(n, bs, vp, with_cond, epochs)
            W2, _, _ = run_config(n, bs, vp, with_cond, epochs)
        except Exception as e:  # noqa
            out.append(_viol(name, f"the real code raised {type(e).__name__}: {e}", n, bs, vp, with_cond, epochs))
            continue
        s = z3.Solver()
        s.add(*W.constr)
        bad = None
        for oname, f in obs + [("the same key reproduces the same run", signature(W) == signature(W2))]:
            if isinstance(f, bool):
                if not f:
                    bad = (oname, None)
                    break
                continue
            t = time.time()
            s.push()
            s.add(z3.Not(f))
            r = s.check()
            nq += 1
            ts += time.time() - t
            m = s.model() if r == z3.sat else None
            s.pop()
            if r != z3.unsat:
                bad = (oname, m, r)
                break
        if bad:
            out.append(_viol(name, f"obligation failed: {bad[0]}", n, bs, vp, with_cond, epochs))
    if not out:
        out.append(rec(f"C15/n={n}: partition, pairing, at-most-once, no leakage, fresh keys, reproducibility for all permutations "
                       f"({len(bs_list)} batch sizes x {len(val_props)} val_props x cond/no-cond, {epochs} epochs)", "discharged", queries=nq, solver_s=ts, vacuity=True,
                       sample=dict(n=n, batch_sizes=list(bs_list), val_props=list(val_props))))
    return out


def _viol(name, what, n, bs, vp, with_cond, epochs):
    ok, msg = replay(n, bs, vp, with_cond, epochs)
    st = "violation" if ok else "inconclusive"
    return rec(name, st, detail=f"{what}; replay on the real fit_to_data: {msg}",
               replay=dict(func="c15:replay", kwargs=dict(n=n, bs=bs, vp=vp, with_cond=with_cond, epochs=epochs)))


def replay(n, bs, vp, with_cond, epochs):
    """real fit_to_data with real jax: rows tagged with their index, recording loss via host callbacks"""
    import jax
    import jax.numpy as jnp
    import jax.random as jr
    import numpy as np
    import optax
    from flowjax.train.data_fit import fit_to_data
    seen = []
    keys_seen = []

    def loss_fn(params, static, x, condition=None, key=None):
        def cb(xv, cv, g, kd):
            seen.append((np.asarray(xv)[:, 0].round().astype(int).tolist(), np.asarray(cv)[:, 0].round().astype(int).tolist(), bool(g)))
            keys_seen.append(tuple(np.asarray(kd).ravel().tolist()))
        # gradient steps are traced through value_and_grad: mark them with a flag derived from params' tracer type
        is_grad = isinstance(params, jax.core.Tracer) and "JVP" in type(params).__name__
        kd = jr.key_data(key) if (key is not None and jnp.issubdtype(key.dtype, jax.dtypes.prng_key)) else (jnp.zeros((2,), jnp.uint32) if key is None else key)
        jax.debug.callback(cb, x, x if condition is None else condition, jnp.asarray(is_grad), kd, ordered=True)
        return jnp.sum(params * 0.0)
    x = jnp.arange(n, dtype=float)[:, None] * jnp.ones((1, 2))
    c = jnp.arange(n, dtype=float)[:, None] if with_cond else None
    problems = []
    runs = []
    for rep in range(2):
        seen.clear()
        keys_seen.clear()
        try:
            fit_to_data(jr.PRNGKey(3), jnp.array(0.0), x, condition=c, loss_fn=loss_fn, max_epochs=epochs, max_patience=10 ** 6, batch_size=bs, val_prop=vp,
                        optimizer=optax.sgd(0.0), show_progress=False)
            jax.effects_barrier()
        except Exception as e:  # noqa
            return True, f"real fit_to_data raised {type(e).__name__}: {e}"
        runs.append(list(seen))
        if len(set(keys_seen)) != len(keys_seen):
            dup = [k for k in set(keys_seen) if keys_seen.count(k) > 1]
            problems.append(f"{len(keys_seen) - len(set(keys_seen))} of the {len(keys_seen)} batches of one run received a key that another batch also received (e.g. {dup[0]})")
        if any(k == (0, 0) for k in keys_seen) and rep == 0:
            pass
    if runs[0] != runs[1]:
        problems.append("same key gave different runs")
    ev = runs[0]
    n_val = round(vp * n)
    n_train = n - n_val
    if any(xr != cr for xr, cr, _ in ev):
        problems.append("x / condition rows misaligned")
    # step events: the loss is traced once under grad per distinct batch shape, so use cardinalities: rows seen overall
    allrows = [r for xr, _, _ in ev for r in xr]
    train_set, val_set = set(), set()
    per_epoch = ((n_train // min(bs, n_train)) + (n_val // min(bs, n_val)))
    for e in range(epochs):
        chunk = ev[e * per_epoch:(e + 1) * per_epoch]
        t = chunk[: n_train // min(bs, n_train)]
        v = chunk[n_train // min(bs, n_train):]
        tr = [r for xr, _, _ in t for r in xr]
        va = [r for xr, _, _ in v for r in xr]
        if len(set(tr)) != len(tr):
            problems.append(f"epoch {e}: training row used twice")
        train_set |= set(tr)
        val_set |= set(va)
    if train_set & val_set:
        problems.append(f"rows {sorted(train_set & val_set)} used both for gradient steps and validation")
    if len(train_set) > n_train or len(val_set) > n_val or (bs == 1 and len(train_set | val_set) != n):
        problems.append(f"partition broken: {len(train_set)} training rows (n_train={n_train}), {len(val_set)} validation rows (n_val={n_val}), n={n}")
    if not problems:
        # the skipped remainder must be re-drawn every epoch: over 12 epochs (5 training rows, batch size 2: one row is dropped per epoch)
        # every training row reaches a gradient step at least once unless the SAME rows are dropped each time (probability 2e-8 otherwise)
        seen.clear()
        keys_seen.clear()
        x2 = jnp.arange(7, dtype=float)[:, None] * jnp.ones((1, 2))
        c2 = jnp.arange(7, dtype=float)[:, None] if with_cond else None
        try:
            fit_to_data(jr.PRNGKey(3), jnp.array(0.0), x2, condition=c2, loss_fn=loss_fn, max_epochs=12, max_patience=10 ** 6, batch_size=2, val_prop=2 / 7,
                        optimizer=optax.sgd(0.0), show_progress=False)
            jax.effects_barrier()
            per_epoch2 = 2 + 1
            tr_rows = set()
            va_rows = set()
            for e in range(12):
                chunk = seen[e * per_epoch2:(e + 1) * per_epoch2]
                tr_rows |= {r for xr, _, _ in chunk[:2] for r in xr}
                va_rows |= {r for xr, _, _ in chunk[2:] for r in xr}
            if len(tr_rows) < 5:
                problems.append(f"n=7, batch_size=2, val_prop=2/7, 12 epochs: only the training rows {sorted(tr_rows)} ever reach a gradient step - the skipped remainder is the "
                                f"same row every epoch instead of the trailing row of each epoch's fresh shuffle")
        except Exception as e:  # noqa
            problems.append(f"real fit_to_data raised {type(e).__name__}: {e}")
    return bool(problems), "; ".join(problems) or "no discrepancy observed"


def obligations(tier, seed):
    tasks = []
    if tier == "quick":
        for n in range(2, 9):
            tasks.append(dict(name=f"n{n}", func="c15:ob_config", kwargs=dict(n=n, bs_list=sorted({1, 2, 3, n, n + 2}), val_props=[0.1, 0.25, 0.5, 0.75, 0.9], epochs=2), cost=n))
    else:
        for n in range(2, 13):
            # every batch size up to n + 2 for n <= 8; for larger n the sizes around the divisors / remainders (1, 2, 3, n // 2, n - 1, n, n + 2)
            bss = list(range(1, n + 3)) if n <= 8 else sorted({1, 2, 3, n // 2, n - 1, n, n + 2})
            tasks.append(dict(name=f"n{n}", func="c15:ob_config", kwargs=dict(n=n, bs_list=bss, val_props=[0.1, 0.25, 0.3, 0.5, 0.75, 0.9], epochs=3 if n <= 7 else 2), cost=n * n))
    return tasks
