"""C02 obligations for combinators and structured layers (zoo2)."""
from . import c01x


def ob_logdet_fwd_all(spec_name):
    from .. import zoo
    from ..bij import ob_logdet_fwd
    spec = zoo.get(spec_name)
    out = []
    for c in spec.x_cases():
        out += ob_logdet_fwd(spec_name, c.name)
    return out


def obligations(tier, seed):
    tasks = []
    for nm in (c01x.COMB_QUICK if tier == "quick" else [n for n in c01x.COMB_THOROUGH if n != "coupling3d2"]):
        tasks.append(dict(name=nm, func="c02:ob_logdet_all", kwargs=dict(spec_name=nm), cost=3.0 if nm.startswith("coupling") else 1.0))
    # BlockAutoregressiveNetwork: the log-space accumulation of block Jacobians (logmatmulexp with -inf off-diagonal entries) against the
    # autodiff Jacobian, all weights symbolic under the C09/C11 invariant (larger blocks / depth 2 / conditional variants do not discharge)
    for nm in ("bnaf2d0", "bnaf2"):
        tasks.append(dict(name=nm + "/fwd", func="c02x:ob_logdet_fwd_all", kwargs=dict(spec_name=nm), cost=8.0))
    tasks.append(dict(name="bnaf-blocks", func="c02x:ob_bnaf_blocks", kwargs={}, cost=6.0, replay=dict(func="c02x:replay_bnaf_blocks", kwargs={})))
    for nm in (c01x.FWD_ONLY_QUICK if tier == "quick" else c01x.FWD_ONLY_THOROUGH):
        tasks.append(dict(name=nm + "/fwd", func="c02x:ob_logdet_fwd_all", kwargs=dict(spec_name=nm), cost=6.0))
    return tasks


def ob_bnaf_blocks():
    """building blocks of the BlockAutoregressiveNetwork log-determinant (the end-to-end obligation only discharges for block_dim 1):
    (1) the layer's log-Jacobian callable returns log of the block-diagonal blocks of the unwrapped weight, block b entry (i, j) =
        W[b*r + i, b*c + j], for every block shape; (2) logmatmulexp(x, y) == log(exp(x) @ exp(y)) for all real matrices, also with the
        -inf off-diagonal entries the activation Jacobians carry"""
    import warnings
    import jax
    jax.config.update("jax_enable_x64", True)
    import jax.numpy as jnp
    import jax.random as jr
    import numpy as np
    import equinox as eqx
    from .. import jx
    from ..jx import Ctx, Interp, set_path
    from ..sym import symarr, trace
    from ..core import rec
    with warnings.catch_warnings():
        warnings.simplefilter("ignore")
        from flowjax.bijections.block_autoregressive_network import block_autoregressive_linear, logmatmulexp
    out = []
    rp = dict(func="c02x:replay_bnaf_blocks", kwargs={})
    for n_blocks, bs in ((2, (2, 2)), (3, (2, 2)), (2, (2, 1)), (2, (1, 2)), (2, (3, 2)), (1, (2, 3)), (3, (1, 1))):
        nm = f"C02/BNAF layer log-Jacobian callable, {n_blocks} blocks of shape {bs}: entry [b, i, j] == log W[b*{bs[0]}+i, b*{bs[1]}+j] (block-diagonal blocks, row-major)"
        with warnings.catch_warnings():
            warnings.simplefilter("ignore")
            lin, fn = block_autoregressive_linear(jr.PRNGKey(0), n_blocks=n_blocks, block_shape=bs)
        R, C = bs[0] * n_blocks, bs[1] * n_blocks
        W = symarr("w", (R, C))
        ctx = Ctx()
        I = Interp(ctx)
        pre = [W[b * bs[0] + i, b * bs[1] + j] > 0 for b in range(n_blocks) for i in range(bs[0]) for j in range(bs[1])]
        set_path(pre, ctx.facts)
        try:
            got = I.run(trace(lambda w: fn(eqx.tree_at(lambda l: l.weight, lin, w)), jnp.ones((R, C))), W)[0]
        except jx.Unsupported as e:
            set_path(None)
            out.append(rec(nm, "error", detail=f"unsupported: {e}"))
            continue
        set_path(None)
        bad = None
        if tuple(got.shape) != (n_blocks,) + tuple(bs):
            bad = f"shape {got.shape}"
        else:
            for b in range(n_blocks):
                for i in range(bs[0]):
                    for j in range(bs[1]):
                        want = jx.slog(ctx, W[b * bs[0] + i, b * bs[1] + j])
                        st, m = jx.prove_eq(ctx, pre, jx.split(got[b, i, j])[0], jx.split(want)[0], name=nm)
                        if st != "unsat":
                            bad = f"entry [{b},{i},{j}]: {st}"
                            break
                    if bad:
                        break
                if bad:
                    break
        if bad is None:
            out.append(rec(nm, "discharged", vacuity=True))
        else:
            ok, msg = replay_bnaf_blocks()
            out.append(rec(nm, "violation" if ok else "inconclusive", detail=f"{bad} | {msg}", replay=rp))
    NI = float("-inf")
    for label, xs, ys, xmask, ymask in (("(2,2) @ (2,2)", (2, 2), (2, 2), None, None), ("(1,2) @ (2,2)", (1, 2), (2, 2), None, None), ("(2,2) @ (2,1)", (2, 2), (2, 1), None, None),
                                        ("(2,2) @ diag with -inf off the diagonal", (2, 2), (2, 2), None, "diag"), ("diag with -inf off the diagonal @ (2,1)", (2, 2), (2, 1), "diag", None)):
        nm = f"C02/logmatmulexp {label} == log(exp(x) @ exp(y)) for all real entries"
        X, Y = symarr("x", xs), symarr("y", ys)

        def masked(A, mask):
            A = A.copy()
            if mask == "diag":
                for idx in np.ndindex(A.shape):
                    if idx[0] != idx[1]:
                        A[idx] = NI
            return A
        Xm, Ym = masked(X, xmask), masked(Y, ymask)
        ctx = Ctx()
        I = Interp(ctx)
        set_path([], ctx.facts)
        try:
            got = I.run(trace(logmatmulexp, jnp.zeros(xs), jnp.zeros(ys)), Xm, Ym)[0]
        except jx.Unsupported as e:
            set_path(None)
            out.append(rec(nm, "error", detail=f"unsupported: {e}"))
            continue
        set_path(None)
        bad = None
        for i in range(xs[0]):
            for k in range(ys[1]):
                S = None
                for j in range(xs[1]):
                    if (xmask == "diag" and i != j) or (ymask == "diag" and j != k):
                        continue          # exp(-inf) = 0
                    e_ = jx.toreal(jx._sexp_plain(ctx, jx.toreal(X[i, j]) + jx.toreal(Y[j, k])))
                    S = e_ if S is None else S + e_
                gt, go, gi = jx.split(got[i, k])
                if S is None:
                    g = jx.band(go, gi == -1)                      # an empty sum: log 0 = -inf
                    st, m = jx.check(ctx, [], jx.toz(g) if jx.is_z(g) else z3_bool(g), name=nm)
                else:
                    want = jx.toreal(jx._slog_plain(ctx, S)[0])
                    okg = jx.band(go, gi == 0)
                    st, m = jx.check(ctx, [], jx.toz(okg) if jx.is_z(okg) else z3_bool(okg), name=nm + " defined")
                    if st == "unsat":
                        st, m = jx.prove_eq(ctx, [], gt, want, name=nm)
                if st != "unsat":
                    bad = f"entry [{i},{k}]: {st}"
                    break
            if bad:
                break
        if bad is None:
            out.append(rec(nm, "discharged", vacuity=True))
        else:
            ok, msg = replay_bnaf_blocks()
            out.append(rec(nm, "violation" if ok else "inconclusive", detail=f"{bad} | {msg}", replay=rp))
    return out


def z3_bool(b):
    import z3
    return z3.BoolVal(bool(b))


def replay_bnaf_blocks():
    import warnings
    import jax
    jax.config.update("jax_enable_x64", True)
    import jax.numpy as jnp
    import jax.random as jr
    import numpy as np
    import equinox as eqx
    with warnings.catch_warnings():
        warnings.simplefilter("ignore")
        from flowjax.bijections.block_autoregressive_network import block_autoregressive_linear, logmatmulexp
        import flowjax.bijections as fb
    bad = []
    rng = np.random.RandomState(0)
    for n_blocks, bs in ((2, (2, 2)), (3, (2, 2)), (2, (2, 1)), (2, (1, 2)), (2, (3, 2))):
        with warnings.catch_warnings():
            warnings.simplefilter("ignore")
            lin, fn = block_autoregressive_linear(jr.PRNGKey(0), n_blocks=n_blocks, block_shape=bs)
        W = np.abs(rng.normal(size=(bs[0] * n_blocks, bs[1] * n_blocks))) + 0.1
        got = np.asarray(fn(eqx.tree_at(lambda l: l.weight, lin, jnp.asarray(W))))
        want = np.stack([np.log(W[b * bs[0]:(b + 1) * bs[0], b * bs[1]:(b + 1) * bs[1]]) for b in range(n_blocks)])
        if got.shape != want.shape or not np.allclose(got, want):
            bad.append(f"log-Jacobian callable for {n_blocks} blocks of {bs}: {got.tolist()} vs log of the diagonal blocks {want.tolist()}")
    x, y = rng.normal(size=(2, 2)), rng.normal(size=(2, 2))
    if not np.allclose(np.asarray(logmatmulexp(jnp.asarray(x), jnp.asarray(y))), np.log(np.exp(x) @ np.exp(y))):
        bad.append("logmatmulexp differs from log(exp(x) @ exp(y))")
    # end to end: depth 2, block_dim 2 against the autodiff Jacobian
    with warnings.catch_warnings():
        warnings.simplefilter("ignore")
        b = fb.BlockAutoregressiveNetwork(jr.PRNGKey(0), dim=3, depth=2, block_dim=2)
    xx = jnp.asarray(rng.normal(size=3))
    ld = float(b.transform_and_log_det(xx)[1])
    lad = float(np.linalg.slogdet(np.asarray(jax.jacfwd(b.transform)(xx)))[1])
    if abs(ld - lad) > 1e-6 * (1 + abs(lad)):
        bad.append(f"BlockAutoregressiveNetwork(dim=3, depth=2, block_dim=2): reported log-det {ld} but log|det J| = {lad}")
    return bool(bad), "; ".join(bad[:2]) or "building blocks agree with their definitions on the replay points"
