"""C02 obligations for combinators and structured layers (zoo2)."""
from . import c01x


def ob_logdet_fwd_all(spec_name):
    from .. import zoo
    from ..bij import ob_logdet_fwd
    spec = zoo.get(spec_name)
    out = []
    for c in spec.x_cases():
        out += ob_logdet_fwd(spec_name, c.name)
    return out


def obligations(tier, seed):
    tasks = []
    for nm in (c01x.COMB_QUICK if tier == "quick" else c01x.COMB_THOROUGH):
        tasks.append(dict(name=nm, func="c02:ob_logdet_all", kwargs=dict(spec_name=nm), cost=3.0 if nm.startswith("coupling") else 1.0))
    # BlockAutoregressiveNetwork: the log-space accumulation of block Jacobians (logmatmulexp with -inf off-diagonal entries) against the
    # autodiff Jacobian, all weights symbolic under the C09/C11 invariant (larger blocks / depth 2 / conditional variants do not discharge)
    for nm in ("bnaf2d0", "bnaf2"):
        tasks.append(dict(name=nm + "/fwd", func="c02x:ob_logdet_fwd_all", kwargs=dict(spec_name=nm), cost=8.0))
    for nm in (c01x.FWD_ONLY_QUICK if tier == "quick" else c01x.FWD_ONLY_THOROUGH):
        tasks.append(dict(name=nm + "/fwd", func="c02x:ob_logdet_fwd_all", kwargs=dict(spec_name=nm), cost=6.0))
    return tasks
