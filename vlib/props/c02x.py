def obligations(tier, seed):
    return []
