"""Obligation runner, evidence writer, replay plumbing, known-findings handling.

A property module (vlib/props/cXX.py) exposes

    META = dict(functions=[...repo-relative source files / qualified names...],
                bounds={...}, assumptions=[...], trusted_base=[...], rule="...")
    def obligations(tier, seed) -> list[dict(name=..., func="cXX:fn", kwargs={...}, cost=float)]

and the functions named there, which run inside worker processes and return a list of records

    dict(name, status in {"discharged","violation","inconclusive","error"},
         detail, queries, solver_s, nontrivial(bool), vacuity(bool|None), sample(optional dict),
         replay(optional dict: what to write to evidence/replays and how to re-run it))

Exit codes of a check: 0 all discharged (or listed known finding), 1 replay-confirmed violation
(prints VIOLATION line), 2 harness error / inconclusive must-discharge obligation.
"""
from __future__ import annotations

import hashlib
import importlib
import json
import multiprocessing as mp
import os
import sys
import time
import traceback

ROOT = os.path.dirname(os.path.dirname(os.path.abspath(__file__)))
REPO = os.environ.get("VERIF_REPO", "/repo")
EVID = os.environ.get("VERIF_EVIDENCE_DIR") or os.path.join(ROOT, "evidence")
REPLAYS = os.path.join(EVID, "replays")


def rec(name, status, detail="", **kw):
    r = dict(name=name, status=status, detail=detail, queries=0, solver_s=0.0, nontrivial=True, vacuity=None)
    r.update(kw)
    return r


def _resolve(func):
    mod, fn = func.split(":")
    m = importlib.import_module("vlib.props." + mod)
    return getattr(m, fn)


def _worker(task):
    """runs one obligation group in a fresh-ish process; never raises"""
    t0 = time.time()
    name = task["name"]
    try:
        os.environ.setdefault("JAX_PLATFORMS", "cpu")
        os.environ.setdefault("XLA_FLAGS", "--xla_force_host_platform_device_count=1")
        import z3  # noqa
        fn = _resolve(task["func"])
        out = fn(**task.get("kwargs", {}))
        if isinstance(out, dict):
            out = [out]
        out = list(out)
        # solver statistics measured by the engines for this task; attributed to the task's first record when the
        # harness did not split them per obligation
        try:
            from . import jx as _jx
            tq = _jx.STATS.queries + _jx.DEC.n
            ts = _jx.STATS.solver_s + _jx.DEC.t
            have_q = sum(int(r.get("queries", 0)) for r in out)
            have_s = sum(float(r.get("solver_s", 0.0)) for r in out)
            if out and tq > have_q:
                out[0]["queries"] = int(out[0].get("queries", 0)) + (tq - have_q)
            if out and ts > have_s:
                out[0]["solver_s"] = float(out[0].get("solver_s", 0.0)) + (ts - have_s)
            # one of the actual SMT-LIB queries of this task is written into the evidence (truncated)
            if out and _jx.STATS.samples and not any(r.get("sample") for r in out):
                smp = _jx.STATS.samples[0]
                out[0]["sample"] = dict(query_name=smp.get("obligation", ""), smt2=smp.get("smt2", "")[:2500], result=smp.get("result", ""))
        except Exception:
            pass
        for r in out:
            r.setdefault("group", name)
        if any(r["status"] in ("error", "inconclusive") for r in out) and not any(r["status"] == "violation" for r in out):
            fb = _fallback_replay(task, "; ".join(f"{r['name']}: {r.get('detail', '')[:160]}" for r in out if r["status"] in ("error", "inconclusive"))[:600])
            if fb is not None:
                out.append(fb)
        return dict(task=name, records=out, wall_s=time.time() - t0)
    except BaseException as e:  # noqa
        if isinstance(e, KeyboardInterrupt):
            raise
        tb = traceback.format_exc()
        fb = _fallback_replay(task, f"{type(e).__name__}: {e}")
        if fb is not None:
            return dict(task=name, records=[fb], wall_s=time.time() - t0)
        return dict(task=name, records=[rec(name, "error", detail=f"{type(e).__name__}: {e}\n{tb[-1500:]}")], wall_s=time.time() - t0)


def _fallback_replay(task, why):
    """a task whose encoding could not be built or decided (harness error / inconclusive) is followed by its concrete replay on the real
    code, when the task declares one: a change to the repository that breaks the encoding is reported as a violation only if the real
    code demonstrably violates the property on the replay points; otherwise the task stays an error / inconclusive (exit 2)"""
    rp = task.get("replay")
    if not rp:
        return None
    try:
        ok, msg = _resolve(rp["func"])(**rp.get("kwargs", {}))
    except BaseException as e:  # noqa
        if isinstance(e, KeyboardInterrupt):
            raise
        return None
    if not ok:
        return None
    return rec(task["name"] + " [concrete replay after an undecided encoding]", "violation", detail=f"encoding undecided ({why}); the real code violates the property on the replay points: {msg}",
               replay=dict(func=rp["func"], kwargs=rp.get("kwargs", {})), nontrivial=False)


def sha256_file(p):
    try:
        return hashlib.sha256(open(p, "rb").read()).hexdigest()[:16]
    except OSError:
        return "missing"


def load_known():
    p = os.path.join(ROOT, "known_findings.json")
    if not os.path.exists(p):
        return []
    return json.load(open(p))


def run_property(pid, tier="quick", jobs=None, seed=0, only=None):
    t0 = time.time()
    mod = importlib.import_module("vlib.props." + pid.lower())
    tasks = mod.obligations(tier, seed)
    if only:
        tasks = [t for t in tasks if only in t["name"]]
    for t in tasks:
        t.setdefault("cost", 1.0)
    tasks.sort(key=lambda t: -t["cost"])
    ncpu = os.cpu_count() or 4
    # every worker spawns 2-4 solver subprocesses per query: using ~70 % of the cores avoids oversubscription (measured on C02: 16 workers
    # 175 s + a retry, 11 workers 49 s and no retry)
    jobs = jobs or int(os.environ.get("VERIF_JOBS", "0")) or max(1, min(12, int(ncpu * 0.7)))
    # wall-clock solver budgets scale with the load of the host at start (other checks may be running next to this one)
    if "VERIF_TIMEOUT_SCALE" not in os.environ:
        try:
            load = os.getloadavg()[0] / ncpu
        except OSError:
            load = 0.0
        os.environ["VERIF_TIMEOUT_SCALE"] = f"{min(4.0, 1.0 + max(0.0, load)):.2f}"
    results = _run_tasks(tasks, jobs)
    # retry pass: a task with an inconclusive / harness-error record is re-run once with 4x budgets and little parallelism
    # (a verdict must not depend on contention); violations are never retried away - they are replay-confirmed
    by = {t["name"]: t for t in tasks}
    again = [by[r["task"]] for r in results if any(q["status"] in ("inconclusive", "error") for q in r["records"])
             and not any(q["status"] == "violation" for q in r["records"])]
    if again and not os.environ.get("VERIF_NO_RETRY"):
        print(f"{pid}: retrying {len(again)} task(s) with inconclusive obligations under 4x solver budgets", flush=True)
        os.environ["VERIF_TIMEOUT_SCALE"] = f"{4.0 * float(os.environ['VERIF_TIMEOUT_SCALE']):.2f}"
        redo = {r["task"]: r for r in _run_tasks(again, max(1, min(jobs // 3, len(again))))}
        results = [redo.get(r["task"], r) for r in results]
        for r in results:
            if r["task"] in redo:
                for q in r["records"]:
                    q["retried"] = True
    records = [q for r in results for q in r["records"]]
    return finish(pid, tier, seed, mod, records, time.time() - t0, results)


def _run_tasks(tasks, jobs):
    results = []
    if jobs <= 1 or len(tasks) <= 1:
        for t in tasks:
            results.append(_worker(t))
        return results
    ctx = mp.get_context("spawn")
    with ctx.Pool(processes=min(jobs, len(tasks)), maxtasksperchild=1) as pool:
        for r in pool.imap_unordered(_worker, tasks):
            results.append(r)
            if os.environ.get("VERIF_VERBOSE"):
                for q in r["records"]:
                    print(f"  [{q['status']:12s}] {q['name']}  ({q.get('solver_s', 0):.2f}s, {q.get('queries', 0)}q) {q.get('detail', '')[:200]}", flush=True)
    return results


def finish(pid, tier, seed, mod, records, wall, results):
    known = [k for k in load_known() if k.get("property") == pid]
    open_known = [k for k in known if k.get("status") == "open"]
    os.makedirs(REPLAYS, exist_ok=True)
    for f_ in os.listdir(REPLAYS):          # the directory reflects the last run of each property only
        if f_.startswith(pid + "-"):
            try:
                os.unlink(os.path.join(REPLAYS, f_))
            except OSError:
                pass
    viol, incon, errs, known_hits = [], [], [], []
    for r in records:
        if r["status"] == "violation":
            hit = None
            for k in open_known:
                if k.get("obligation") and k["obligation"] in r["name"] and (not k.get("region") or k["region"] in json.dumps(r.get("replay", {}))):
                    hit = k
            if hit:
                known_hits.append((hit, r))
            else:
                viol.append(r)
        elif r["status"] == "inconclusive":
            incon.append(r)
        elif r["status"] == "error":
            errs.append(r)
    for k, r in known_hits:
        print(f"KNOWN-FINDING: property={pid} {k.get('what', r['name'])}")
    replay_paths = []
    for r in viol:
        safe = "".join(c if c.isalnum() or c in "-_." else "_" for c in r["name"])[:120]
        path = os.path.join(REPLAYS, f"{pid}-{safe}.json")
        payload = dict(property=pid, obligation=r["name"], detail=r.get("detail", ""), replay=r.get("replay", {}))
        with open(path, "w") as f:
            json.dump(payload, f, indent=1, default=str)
        replay_paths.append(path)
        print(f"VIOLATION property={pid} replay={path}")
        print(f"  obligation: {r['name']}\n  {r.get('detail', '')[:600]}")
    for r in incon:
        print(f"INCONCLUSIVE property={pid} obligation={r['name']} {r.get('detail', '')[:300]}")
    for r in errs:
        print(f"HARNESS-ERROR property={pid} obligation={r['name']} {r.get('detail', '')[:1500]}")

    meta = getattr(mod, "META", {})
    n_ob = len(records)
    n_dis = sum(1 for r in records if r["status"] == "discharged")
    nontriv = sum(1 for r in records if r.get("nontrivial", True) and r["status"] == "discharged")
    queries = sum(int(r.get("queries", 0)) for r in records)
    solver_s = sum(float(r.get("solver_s", 0.0)) for r in records)
    vac = sum(1 for r in records if r.get("vacuity") is True)
    samples = []
    for r in records:
        if r.get("sample") and len(samples) < 4 and (len(samples) < 2 or r["sample"].get("smt2")):
            samples.append(dict(obligation=r["name"], **r["sample"]))
    for r in records[:3]:
        if len(samples) < 3:
            samples.append(dict(obligation=r["name"], status=r["status"], detail=r.get("detail", "")[:300]))
    files = {}
    for f in meta.get("files", []):
        files[f] = sha256_file(os.path.join(REPO, f))
    ev = dict(
        property_id=pid, tier=tier, seed=int(seed), level="model_checking",
        coverage=dict(
            evaluations=max(1, queries),
            distinct_nontrivial=nontriv,
            rule=meta.get("rule", "one obligation = one solver-decided assertion over symbolic inputs of the traced/re-bound real code; "
                                   "non-trivial = needed at least one solver query (not closed by syntactic identity / constant folding); "
                                   "distinct = distinct obligation names"),
            samples=samples or [dict(note="no obligations")],
            obligations=n_ob, discharged=n_dis,
            inconclusive=len(incon), harness_errors=len(errs), known_findings=len(known_hits),
            vacuity_witnesses=vac,
            solver_queries=queries, solver_time_s=round(solver_s, 3),
            checker_cmd=f"./vcheck {pid} --tier {tier}",
            trusted_base=meta.get("trusted_base", []),
            functions_encoded=meta.get("functions", []),
            source_sha256=files,
            bounds=meta.get("bounds", {}).get(tier, meta.get("bounds", {})),
            outside_bounds=meta.get("outside", []),
            explanation=meta.get("explanation", ""),
            exhaustive=False,
            obligation_list=[dict(name=r["name"], status=r["status"], queries=r.get("queries", 0), solver_s=round(float(r.get("solver_s", 0)), 3)) for r in records][:400],
            task_wall_s={r["task"]: round(r["wall_s"], 2) for r in results},
        ),
        assumptions=meta.get("assumptions", []),
        wall_s=round(wall, 2),
        violations=len(viol),
    )
    os.makedirs(EVID, exist_ok=True)
    with open(os.path.join(EVID, f"{pid}.json"), "w") as f:
        json.dump(ev, f, indent=1, default=str)
    print(f"{pid} tier={tier}: obligations={n_ob} discharged={n_dis} violations={len(viol)} inconclusive={len(incon)} "
          f"errors={len(errs)} known={len(known_hits)} queries={queries} solver_s={solver_s:.1f} wall_s={wall:.1f}")
    if viol:
        return 1
    if incon or errs or n_ob == 0:
        return 2
    return 0


def main(argv=None):
    import argparse
    ap = argparse.ArgumentParser()
    ap.add_argument("prop")
    ap.add_argument("--tier", default=os.environ.get("VERIF_TIER", "quick"))
    ap.add_argument("--jobs", type=int, default=None)
    ap.add_argument("--only", default=None)
    ap.add_argument("--replay", default=None)
    a = ap.parse_args(argv)
    seed = int(os.environ.get("VERIF_SEED", "0") or 0)
    if a.prop == "replay" or a.replay:
        path = a.replay or a.only
        return replay_file(path)
    return run_property(a.prop.upper(), a.tier, a.jobs, seed, a.only)


def replay_file(path):
    d = json.load(open(path))
    rp = d.get("replay", {})
    fn = rp.get("func")
    if not fn:
        print("replay file has no replay function")
        return 2
    f = _resolve(fn)
    ok, msg = f(**rp.get("kwargs", {}))
    print(("REPRODUCED: " if ok else "not reproduced: ") + msg)
    return 1 if ok else 0
