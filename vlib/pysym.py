"""E2 `pysym`: re-execution symbolic executor for the real Python control code.

The function under test is the REAL code object re-bound to stub globals (`rebind`).  Symbolic values
(`SNum`, `SBool`) wrap z3 terms; `bool(SBool)` forks: the explorer re-runs the function once per feasible
decision vector (DFS, z3 feasibility of each alternative).  Post-conditions are checked by z3 on every path
(`pc ∧ ¬post` must be unsat).  `__format__/__str__` return placeholders so error-message f-strings never fork.
"""
from __future__ import annotations

import types
import time

import z3


class Infeasible(Exception):
    pass


class Explorer:
    def __init__(self, assumptions=(), max_paths=200000):
        self.prefix = []
        self.trace = []
        self.pc = []
        self.solver = z3.Solver()
        self.solver.set("timeout", 20000)
        self.assumptions = list(assumptions)
        self.solver.add(*self.assumptions)
        self.max_paths = max_paths
        self.queries = 0
        self.solver_s = 0.0

    def _feasible(self, extra):
        t = time.time()
        self.solver.push()
        self.solver.add(*extra)
        r = self.solver.check()
        self.solver.pop()
        self.queries += 1
        self.solver_s += time.time() - t
        return r != z3.unsat

    def choose(self, cond):
        cond_s = z3.simplify(cond)
        if z3.is_true(cond_s):
            return True
        if z3.is_false(cond_s):
            return False
        i = len(self.trace)
        if i < len(self.prefix):
            d = self.prefix[i]
        else:
            d = None
            for cand in (True, False):
                if self._feasible(self.pc + [cond if cand else z3.Not(cond)]):
                    d = cand
                    break
            if d is None:
                raise Infeasible()
        self.trace.append(d)
        self.pc.append(cond if d else z3.Not(cond))
        return d

    def run_all(self, fn):
        """fn(explorer) -> result; yields (path condition list, result) for every feasible path"""
        global EX
        stack = [[]]
        n = 0
        while stack:
            self.prefix = stack.pop()
            self.trace = []
            self.pc = []
            EX = self
            try:
                res = fn(self)
            except Infeasible:
                continue
            n += 1
            yield list(self.pc), res
            for i in range(len(self.prefix), len(self.trace)):
                if self._feasible(self.pc[:i] + [z3.Not(self.pc[i])]):
                    stack.append(self.trace[:i] + [not self.trace[i]])
            if n >= self.max_paths:
                raise RuntimeError("path bound exceeded")

    def valid(self, pc, post):
        """pc ⇒ post ?  returns (True, None) or (False, model)"""
        t = time.time()
        s = z3.Solver()
        s.set("timeout", 60000)
        s.add(*self.assumptions)
        s.add(*pc)
        s.add(z3.Not(post))
        r = s.check()
        self.queries += 1
        self.solver_s += time.time() - t
        if r == z3.unsat:
            return True, None
        if r == z3.sat:
            return False, s.model()
        return None, None


EX = None


def lift(v):
    if isinstance(v, (SNum, SBool)):
        return v.e
    return v


class SBool:
    def __init__(self, e):
        self.e = e

    def __bool__(self):
        return EX.choose(self.e)

    def __and__(self, o):
        return SBool(z3.And(self.e, lift(o) if not isinstance(o, bool) else z3.BoolVal(o)))

    def __or__(self, o):
        return SBool(z3.Or(self.e, lift(o) if not isinstance(o, bool) else z3.BoolVal(o)))

    def __invert__(self):
        return SBool(z3.Not(self.e))

    def __repr__(self):
        return "<symbool>"


def _wrap(e):
    return SNum(e)


class SNum:
    """symbolic int or real"""

    def __init__(self, e):
        self.e = e

    # comparisons fork only when used as a condition
    def __eq__(self, o):
        if not isinstance(o, (SNum, int, float)) or isinstance(o, bool):
            return False
        return SBool(self.e == lift(o))

    def __ne__(self, o):
        if not isinstance(o, (SNum, int, float)) or isinstance(o, bool):
            return True
        return SBool(self.e != lift(o))

    def __lt__(self, o):
        return SBool(self.e < lift(o))

    def __le__(self, o):
        return SBool(self.e <= lift(o))

    def __gt__(self, o):
        return SBool(self.e > lift(o))

    def __ge__(self, o):
        return SBool(self.e >= lift(o))

    def __hash__(self):
        return id(self)

    def __bool__(self):
        # truthiness of a number (`if not max_patience:`): forks on != 0 like any other condition
        return EX.choose(self.e != 0)

    def __add__(self, o):
        return SNum(self.e + lift(o))

    __radd__ = __add__

    def __sub__(self, o):
        return SNum(self.e - lift(o))

    def __rsub__(self, o):
        return SNum(lift(o) - self.e)

    def __mul__(self, o):
        return SNum(self.e * lift(o))

    __rmul__ = __mul__

    def __neg__(self):
        return SNum(-self.e)

    def __truediv__(self, o):
        a = z3.ToReal(self.e) if z3.is_int(self.e) else self.e
        b = lift(o)
        if isinstance(b, z3.ExprRef) and z3.is_int(b):
            b = z3.ToReal(b)
        return SNum(a / b)

    def __floordiv__(self, o):
        return SNum(self.e / lift(o))  # z3 int division (floor for positive divisor)

    def __mod__(self, o):
        return SNum(self.e % lift(o))

    def __index__(self):
        # concretise: enumerate the feasible values (small ranges only)
        return self.concretize()

    def concretize(self, lo=-16, hi=64):
        v = z3.simplify(self.e)
        if z3.is_int_value(v):
            return v.as_long()
        for k in range(lo, hi):
            if EX.choose(self.e == k):
                return k
        raise Infeasible()

    def item(self):
        return self

    def __repr__(self):
        return "<sym>"

    __str__ = __repr__

    def __format__(self, spec):
        return "<sym>"


def rebind(f, **g):
    """the real code object of `f` with some globals replaced"""
    f = getattr(f, "__wrapped__", f) if g.pop("_unwrap", False) else f
    gg = dict(f.__globals__)
    gg.update(g)
    nf = types.FunctionType(f.__code__, gg, f.__name__, f.__defaults__, f.__closure__)
    nf.__kwdefaults__ = f.__kwdefaults__
    return nf


def ints(prefix, n):
    return tuple(SNum(z3.Int(f"{prefix}{i}")) for i in range(n))
