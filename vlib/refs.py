"""Reference semantics written from the documentation / cited papers with plain scalar operations on object arrays
(never through jnp): used by C07 (elementary bijections) and C08 (combinator definitions over the children's own methods)."""
from __future__ import annotations

from fractions import Fraction

import numpy as np
import z3

from . import jx
from .jx import add, sub, mul, div, sexp, slog, split, toreal, is_z


def vec(f, *arrs):
    return jx.emap(f, *arrs)


def F(x):
    return Fraction(x)


# ---- elementary functions ----------------------------------------------------------------------
def ref_affine(s, ctx, x, c, case=None):
    return vec(lambda xv, sc, lo: add(mul(sc, xv), lo), x, s.sym["scale"], s.sym["loc"])


def ref_loc(s, ctx, x, c, case=None):
    return vec(add, x, s.sym["loc"])


def ref_scale(s, ctx, x, c, case=None):
    return vec(mul, x, s.sym["scale"])


def ref_triangular(s, ctx, x, c, case=None):
    T, loc = s.sym["triangular"], s.sym["loc"]
    n = T.shape[0]
    out = np.empty((n,), dtype=object)
    for i in range(n):
        acc = loc[i]
        for j in range(n):
            acc = add(acc, mul(T[i, j], x[j]))
        out[i] = acc
    return out


def ref_exp(s, ctx, x, c, case=None):
    return vec(lambda v: sexp(ctx, v), x)


def ref_softplus(s, ctx, x, c, case=None):
    return vec(lambda v: slog(ctx, add(F(1), sexp(ctx, v))), x)


def tanh_ref(ctx, v):
    e2 = sexp(ctx, mul(F(2), v))
    return div(ctx, sub(e2, F(1)), add(e2, F(1)))


def ref_tanh(s, ctx, x, c, case=None):
    return vec(lambda v: tanh_ref(ctx, v), x)


def ref_leakytanh(s, ctx, x, c, case=None):
    """tanh inside +-max_val, tangent line tanh(m)*sgn + (1 - tanh(m)^2) (x - m*sgn) outside"""
    m = s.sym["max_val"][()]
    th = tanh_ref(ctx, m)
    g = sub(F(1), mul(th, th))

    def f(v):
        name = case.name if case is not None else ""
        if name in ("x>m", "x==m"):
            return add(th, mul(g, sub(v, m)))
        if name in ("x<-m", "x==-m"):
            return add(jx.neg(th), mul(g, add(v, m)))
        if name in ("-m<x<0", "x==0", "0<x<m"):
            return tanh_ref(ctx, v)
        # vector instance: piecewise
        hi = jx.cmp("ge", v, m)
        lo = jx.cmp("le", v, jx.neg(m))
        return jx.ite(hi, add(th, mul(g, sub(v, m))), jx.ite(lo, add(jx.neg(th), mul(g, add(v, m))), tanh_ref(ctx, v)))
    return vec(f, x)


def ref_addcond(s, ctx, x, c, case=None):
    W = s.sym["module.weight"]
    b = s.sym["module.bias"]
    out = np.empty(x.shape, dtype=object)
    for i in range(x.shape[0]):
        acc = b[i]
        for j in range(c.shape[0]):
            acc = add(acc, mul(W[i, j], c[j]))
        out[i] = add(x[i], acc)
    return out


def ref_flip(s, ctx, x, c, case=None):
    sl = tuple(slice(None, None, -1) for _ in range(x.ndim))
    return x[sl].copy()


def ref_identity(s, ctx, x, c, case=None):
    return x.copy()


def ref_permute(perm):
    perm = np.asarray(perm)

    def f(s, ctx, x, c, case=None):
        flat = x.ravel()
        out = np.empty(perm.size, dtype=object)
        for i, p in enumerate(perm.ravel()):
            out[i] = flat[int(p)]
        return out.reshape(perm.shape)
    return f


def ref_planar(leaky_slope):
    def f(s, ctx, x, c, case=None):
        p = s.sym["params"]
        d = x.shape[0]
        w, b = p[:d], p[2 * d]
        uh = s._uhat            # get_act_scale() output (cut variables, constrained by the proved lemma)
        z = b
        for i in range(d):
            z = add(z, mul(w[i], x[i]))
        if leaky_slope is None:
            act = tanh_ref(ctx, z)
        else:
            act = jx.ite(jx.cmp("ge", z, F(0)), z, mul(F(leaky_slope), z))
        return vec(lambda xv, u: add(xv, mul(u, act)), x, uh)
    return f


def ref_rqs(s, ctx, x, c, case=None):
    """eq. 4 of Durkan et al. (2019) in the bin containing x, identity outside the interval"""
    xv = x[()]
    xp, yp, d = s.sym["x_pos"], s.sym["y_pos"], s.sym["derivatives"]
    name = case.name
    if name in ("v<A", "v>B"):
        return x.copy()
    n = len(xp)
    if name == "v==A":
        return jx.oarr_s(yp[0])
    if name == "v==B":
        return jx.oarr_s(yp[n - 1])
    if name.startswith("knot"):
        return jx.oarr_s(yp[int(name[4:])])
    k = int(name[3:])
    w = sub(xp[k + 1], xp[k])
    h = sub(yp[k + 1], yp[k])
    sk = div(ctx, h, w)
    xi = div(ctx, sub(xv, xp[k]), w)
    om = sub(F(1), xi)
    num = mul(h, add(mul(sk, mul(xi, xi)), mul(d[k], mul(xi, om))))
    den = add(sk, mul(sub(add(d[k + 1], d[k]), mul(F(2), sk)), mul(xi, om)))
    return jx.oarr_s(add(yp[k], div(ctx, num, den)))
