"""E1 `jx2smt`: symbolic interpreter of JAX jaxprs into z3 terms (Real / Int / Bool).

The real flowjax functions are traced by `jax.make_jaxpr`; this module interprets the
resulting jaxpr with every array element being

  * a python constant (bool / int / Fraction; float only for +-inf / nan), or
  * a z3 term (finite, defined), or
  * a `P(t, ok, inf)` triple: term `t`, definedness bit `ok` (z3 Bool / python bool: "the IEEE
    computation is finite and equals t") and `inf` (python int or z3 Int in {-1,0,1}: the value
    is -inf / finite / +inf; when inf != 0 the term is irrelevant).

Comparisons met while interpreting are decided on the fly against the current *case assumption*
(path-sensitive interpretation, see DESIGN 2.2).  exp/log are uninterpreted functions EXP/LOG
with a normaliser; facts about them are collected in `Ctx.facts` and filtered by relevance.

Pinned to the sandbox's jax 0.11.2 conventions; unknown primitives raise `Unsupported`.
"""
from __future__ import annotations

import math
import time
from fractions import Fraction

import numpy as np
import z3

import jax
import jax.numpy as jnp
from jax import lax


class Unsupported(Exception):
    pass


# ----------------------------------------------------------------------------------------
# values
# ----------------------------------------------------------------------------------------
class P:
    """value with non-trivial definedness and/or infinity kind.
    nan: python bool / z3 Bool - condition under which the IEEE value is DEFINITELY NaN (e.g. log of a negative number);
    it only refines the not-ok case (ok is false whenever nan is true)."""
    __slots__ = ("t", "ok", "inf", "nan")

    def __init__(self, t, ok=True, inf=0, nan=False):
        self.t = t
        self.ok = ok
        self.inf = inf
        self.nan = nan

    def __repr__(self):
        return f"P({self.t}, ok={self.ok}, inf={self.inf}, nan={self.nan})"


def nan_of(v):
    if isinstance(v, P):
        return v.nan
    if isinstance(v, float):
        return math.isnan(v)
    return False


def with_nan(v, nan):
    """attach a definite-NaN condition to a value"""
    if nan is False:
        return v
    t, o, i = split(v)
    prev = nan_of(v)
    return P(t, band(o, bnot(nan)), i, bor(prev, nan))


def is_z(v):
    return isinstance(v, z3.ExprRef)


def is_sym(v):
    return isinstance(v, (z3.ExprRef, P))


def _isspecial(v):
    return isinstance(v, float)  # only inf / nan are kept as floats


def conc(v):
    """numpy / python scalar -> exact python constant"""
    if isinstance(v, (bool, np.bool_)):
        return bool(v)
    if isinstance(v, (int, np.integer)):
        return int(v)
    if isinstance(v, (float, np.floating)):
        f = float(v)
        if math.isinf(f) or math.isnan(f):
            return f
        return Fraction(f)
    if isinstance(v, Fraction):
        return v
    raise TypeError(type(v))


def toz(v):
    if is_z(v):
        return v
    if isinstance(v, bool):
        return z3.BoolVal(v)
    if isinstance(v, int):
        return z3.IntVal(v)
    if isinstance(v, Fraction):
        return z3.RealVal(str(v))
    raise TypeError(repr(v))


def toreal(v):
    if is_z(v):
        if v.sort() == z3.IntSort():
            return z3.ToReal(v)
        if v.sort() == z3.BoolSort():
            return z3.If(v, z3.RealVal(1), z3.RealVal(0))
        return v
    if isinstance(v, bool):
        return z3.RealVal(int(v))
    return z3.RealVal(str(Fraction(v)))


def split(v):
    """-> (plain value, ok, inf)"""
    if isinstance(v, P):
        return v.t, v.ok, v.inf
    if _isspecial(v):
        if math.isnan(v):
            return Fraction(0), False, 0
        return Fraction(0), True, (1 if v > 0 else -1)
    return v, True, 0


def join(t, ok, inf=0):
    if ok is True and (not is_z(inf)) and inf == 0:
        return t
    if (not is_z(inf)) and inf != 0 and ok is True:
        return float("inf") if inf > 0 else float("-inf")
    if ok is False and not is_z(inf):
        return float("nan")
    return P(t, ok, inf)


# ---- boolean helpers with folding -------------------------------------------------------
def band(*xs):
    out = []
    for x in xs:
        if is_z(x):
            out.append(x)
        elif not x:
            return False
    if not out:
        return True
    return out[0] if len(out) == 1 else z3.And(*out)


def bor(*xs):
    out = []
    for x in xs:
        if is_z(x):
            out.append(x)
        elif x:
            return True
    if not out:
        return False
    return out[0] if len(out) == 1 else z3.Or(*out)


def bnot(a):
    return (not a) if not is_z(a) else z3.Not(a)


def bite(c, a, b):
    """if-then-else on booleans / ints that may be python or z3"""
    if not is_z(c):
        return a if c else b
    if not is_z(a) and not is_z(b) and a == b:
        return a
    if is_z(a) and is_z(b) and a.eq(b):
        return a
    if isinstance(a, bool) or isinstance(b, bool) or (is_z(a) and z3.is_bool(a)) or (is_z(b) and z3.is_bool(b)):
        return z3.If(c, toz(bool(a)) if not is_z(a) else a, toz(bool(b)) if not is_z(b) else b)
    return z3.If(c, toz(a), toz(b))


_FRESH_MEMO = {}
DETERMINISTIC_FRESH = False   # opt-in (C12's trace-identity obligations): unknown Booleans become functions of their operands


def fresh_for(tag, *terms):
    """an unconstrained Bool that is a FUNCTION of the given terms: the same (tag, terms) always yields the same constant, so two
    interpretations of the same computation produce identical terms"""
    if not DETERMINISTIC_FRESH:
        return z3.FreshConst(z3.BoolSort(), tag.split("_")[0])
    key = (tag,) + tuple(t.get_id() if is_z(t) else repr(t) for t in terms)
    hit = _FRESH_MEMO.get(key)
    if hit is None:
        hit = (z3.FreshConst(z3.BoolSort(), tag), terms)
        _FRESH_MEMO[key] = hit
    return hit[0]


def inf_is0(i):
    return (i == 0) if not is_z(i) else (i == 0)


class Ctx:
    def __init__(self):
        self.facts = []        # side facts (sqrt definitions, positivity of exp atoms ...)
        self.errors = []       # (message, predicate) of eqx.error_if
        self.EXP = z3.Function("EXP", z3.RealSort(), z3.RealSort())
        self.LOG = z3.Function("LOG", z3.RealSort(), z3.RealSort())
        self.log_arg = {}      # id(LOG(u)) -> u
        self.exp_atoms = {}    # id(EXP(a)) -> (a, EXP(a))
        self.sqrt_memo = {}
        self.uf = {}
        self.n = 0
        self.hooks = {}
        self.keep = []         # keep z3 refs alive (ids are reused otherwise)
        self.side = []         # undecided definedness side conditions of every executed operation (witness-search heuristic)
        self.key_uses = []         # (primitive, application number, key word 0, key word 1) of every random_bits / random_split
        self.exp_overflow = None   # C18 only: exp(t) is +inf above this threshold (float64 overflow), see sexp_ovf
        self.ite_cap = 6       # If-nodes lifted out of one exponent at most (2^n cases); the bijection harnesses raise it

    def fresh(self, name, sort=None):
        self.n += 1
        return z3.Const(f"{name}!{self.n}", sort or z3.RealSort())

    def ufun(self, name, *sorts):
        k = (name, tuple(str(s) for s in sorts))
        if k not in self.uf:
            self.uf[k] = z3.Function(name, *sorts)
        return self.uf[k]


# ----------------------------------------------------------------------------------------
# path-sensitive decisions
# ----------------------------------------------------------------------------------------
class Decider:
    """decides comparisons against the current case assumption with small-rlimit queries"""

    def __init__(self):
        self.solver = None
        self.assumed = []
        self.fact_apps = {}
        self.cache = {}
        self.facts_ref = None
        self.nf = 0
        self.n = 0
        self.t = 0.0
        self.rlimit = 400000
        self.timeout = 4000
        self.max_nl = 4
        self.max_nl_soft = 6
        self.max_size = 120
        self.skipped = 0

    def set_path(self, assumptions, facts_ref=None, rlimit=4000000, timeout=8000, max_nl=40, max_size=400, max_nl_soft=6):
        self.max_nl, self.max_size, self.max_nl_soft = max_nl, max_size, max_nl_soft
        if assumptions is None:
            self.solver = None
            return
        s = z3.Solver()
        s.set("rlimit", rlimit)
        s.set("timeout", timeout)
        s.add(*assumptions)
        self.assumed = list(assumptions)
        self.fact_apps = {}
        self.solver = s
        self.cache = {}
        self.facts_ref = facts_ref
        self.nf = 0
        self.rlimit = rlimit
        self.timeout = timeout
        self.skipped = 0

    def add(self, *fs):
        if self.solver is not None:
            self.solver.add(*fs)
            self.assumed += list(fs)
            self.cache = {}

    def decide(self, r, force=False):
        s = self.solver
        if s is None or not is_z(r):
            return r
        r0 = r
        r = z3.simplify(r)
        if z3.is_true(r):
            return True
        if z3.is_false(r):
            return False
        r = r0
        k = r.get_id()
        if k in self.cache:
            return self.cache[k][1]
        nl, size = nonlinearity(r, self.max_nl + 1, self.max_size + 1)
        if nl > self.max_nl or size > self.max_size:
            self.skipped += 1
            self.cache[k] = (r, r)
            return r
        t = time.time()
        fr = self.facts_ref
        rel = []
        if fr:
            need = _apps(r)
            for a_ in self.assumed:
                _apps(a_, need)
            if need:
                seenf = set()
                for f in fr:
                    fi = f.get_id()
                    if fi in seenf:
                        continue
                    seenf.add(fi)
                    fa = self.fact_apps.get(fi)
                    if fa is None:
                        fa = self.fact_apps[fi] = _apps(f)
                    if fa and fa <= need:
                        rel.append(f)
        out = r
        if nl == 0 and not any(nonlinearity(f, 1)[0] for f in rel):
            # linear: incremental in-process solver (milliseconds)
            s.push()
            s.add(*rel)
            s.add(z3.Not(r))
            a = s.check()
            s.pop()
            if a == z3.unsat:
                out = True
            else:
                s.push()
                s.add(*rel)
                s.add(r)
                b = s.check()
                s.pop()
                if b == z3.unsat:
                    out = False
        else:
            # non-linear: wall-clock bounded external solver (purified divisions + nlsat when UF-free)
            from . import ext
            base = list(self.assumed) + rel
            wall = self.timeout / 1000.0 if force else max(self.timeout / 4000.0, 1.0)
            strat = ["default"] if any(_has_uf(c) for c in base + [r]) else ["purify-nlsat"]
            ra, _, _ = ext.run_portfolio(base + [z3.Not(r)], strat, timeout_s=wall, want_model=False)
            if ra == "unsat":
                out = True
            elif ra == "sat" or force:
                rb, _, _ = ext.run_portfolio(base + [r], strat, timeout_s=wall, want_model=False)
                if rb == "unsat":
                    out = False
        self.cache[k] = (r, out)
        self.n += 2
        self.t += time.time() - t
        return out


def nonlinearity(t, nl_cap=10**9, size_cap=10**9):
    """(#non-linear nodes, DAG size) of a z3 term, early exit at the caps"""
    seen = set()
    st = [t]
    nl = 0
    while st:
        e = st.pop()
        i = e.get_id()
        if i in seen:
            continue
        seen.add(i)
        if len(seen) > size_cap or nl > nl_cap:
            break
        if z3.is_app(e):
            k = e.decl().kind()
            ch = e.children()
            if k == z3.Z3_OP_MUL:
                if sum(1 for c in ch if znum(c) is None) >= 2:
                    nl += 1
            elif k in (z3.Z3_OP_DIV, z3.Z3_OP_IDIV, z3.Z3_OP_MOD, z3.Z3_OP_REM):
                if znum(ch[1]) is None:
                    nl += 1
            elif k == z3.Z3_OP_POWER:
                nl += 1
            elif k == z3.Z3_OP_UNINTERPRETED and ch:
                nl += 1
            st.extend(ch)
    return nl, len(seen)


DEC = Decider()


def set_path(assumptions, facts_ref=None, **kw):
    DEC.set_path(assumptions, facts_ref, **kw)


# ----------------------------------------------------------------------------------------
# scalar arithmetic on plain values (python const | z3 term), with constant folding
# ----------------------------------------------------------------------------------------
def _coerce(a, b):
    za, zb = toz(a), toz(b)
    if z3.is_bool(za):
        za = z3.If(za, z3.IntVal(1), z3.IntVal(0))
    if z3.is_bool(zb):
        zb = z3.If(zb, z3.IntVal(1), z3.IntVal(0))
    if z3.is_int(za) and z3.is_real(zb):
        za = z3.ToReal(za)
    if z3.is_real(za) and z3.is_int(zb):
        zb = z3.ToReal(zb)
    return za, zb


def _add(a, b):
    if not is_z(a) and not is_z(b):
        return a + b
    if not is_z(a) and a == 0:
        return b
    if not is_z(b) and b == 0:
        return a
    za, zb = _coerce(a, b)
    return za + zb


def _sub(a, b):
    if not is_z(a) and not is_z(b):
        return a - b
    if not is_z(b) and b == 0:
        return a
    if is_z(a) and is_z(b) and a.eq(b):
        return Fraction(0) if z3.is_real(a) else 0
    za, zb = _coerce(a, b)
    return za - zb


def _mul(a, b):
    if not is_z(a) and not is_z(b):
        return a * b
    for p, q in ((a, b), (b, a)):
        if not is_z(p):
            if p == 0:
                return 0 if isinstance(p, int) and not (is_z(q) and z3.is_real(q)) else Fraction(0)
            if p == 1:
                return q
    za, zb = _coerce(a, b)
    # a * (c / a) -> c : exact whenever the quotient is defined (its ok-bit carries a != 0)
    for p_, q_ in ((za, zb), (zb, za)):
        if z3.is_app(q_) and q_.decl().kind() == z3.Z3_OP_DIV and q_.arg(1).eq(p_):
            return q_.arg(0)
    return za * zb


def _neg(a):
    return -a


def _cmp(op, a, b, force=False):
    if not is_z(a) and not is_z(b):
        return {"lt": a < b, "le": a <= b, "gt": a > b, "ge": a >= b, "eq": a == b, "ne": a != b}[op]
    za, zb = _coerce(a, b)
    if is_z(a) and is_z(b) and za.eq(zb):
        return op in ("le", "ge", "eq")
    r = {"lt": za < zb, "le": za <= zb, "gt": za > zb, "ge": za >= zb, "eq": za == zb, "ne": za != zb}[op]
    return DEC.decide(r, force=force)


def _ite(c, a, b):
    if not is_z(c):
        return a if c else b
    if (not is_z(a)) and (not is_z(b)) and type(a) == type(b) and a == b:
        return a
    if is_z(a) and is_z(b) and a.eq(b):
        return a
    if isinstance(a, bool) or (is_z(a) and z3.is_bool(a)):
        return z3.If(c, toz(a), toz(b))
    za, zb = _coerce(a, b)
    return z3.If(c, za, zb)


# ---- lifted to P -----------------------------------------------------------------------
def _fin_ok(oa, ia):
    """definedness of a finite-only use of a value"""
    return band(oa, inf_is0(ia) if not is_z(ia) else (ia == 0))


def lift_fin(f):
    """op defined on finite values; any (possibly) infinite operand makes the result not-ok"""
    def g(*vs):
        ts, ok = [], True
        for v in vs:
            t, o, i = split(v)
            ts.append(t)
            ok = band(ok, _fin_ok(o, i))
        nn = bor(*[nan_of(v) for v in vs])
        if ok is False:
            return float("nan")
        return with_nan(join(f(*ts), ok), nn)
    return g


def _sgn_inf(i):
    return i


def add(a, b):
    if not isinstance(a, (P, float)) and not isinstance(b, (P, float)):
        return _add(a, b)
    nn = bor(nan_of(a), nan_of(b))
    if nn is not False and not (nn is True):
        return with_nan(_add_p(a, b), nn)
    return _add_p(a, b)


def _add_p(a, b):
    ta, oa, ia = split(a)
    tb, ob, ib = split(b)
    # inf + finite = inf ; inf + -inf = nan
    if not is_z(ia) and not is_z(ib):
        if ia == 0 and ib == 0:
            return join(_add(ta, tb), band(oa, ob))
        if ia != 0 and ib != 0 and ia != ib:
            return float("nan")
        return join(Fraction(0), band(oa, ob), ia if ia != 0 else ib)
    zia, zib = toz(ia), toz(ib)
    inf = z3.If(zia != 0, zia, zib)
    ok = band(oa, ob, z3.Not(z3.And(zia != 0, zib != 0, zia != zib)))
    return join(_add(ta, tb), ok, inf)


def neg(a):
    if not isinstance(a, (P, float)):
        return _neg(a)
    t, o, i = split(a)
    return with_nan(join(_neg(t), o, -i), nan_of(a) if not isinstance(a, float) else False)


def sub(a, b):
    if not isinstance(a, (P, float)) and not isinstance(b, (P, float)):
        return _sub(a, b)
    return add(a, neg(b))


def mul(a, b):
    if not isinstance(a, (P, float)) and not isinstance(b, (P, float)):
        return _mul(a, b)
    nn = bor(nan_of(a), nan_of(b))
    if nn is not False and not (nn is True):
        return with_nan(_mul_p(a, b), nn)
    return _mul_p(a, b)


def _mul_p(a, b):
    ta, oa, ia = split(a)
    tb, ob, ib = split(b)
    if not is_z(ia) and not is_z(ib) and ia == 0 and ib == 0:
        return join(_mul(ta, tb), band(oa, ob))
    # inf * c : sign known only for constant finite factor
    for (t1, o1, i1), (t2, o2, i2) in (((ta, oa, ia), (tb, ob, ib)), ((tb, ob, ib), (ta, oa, ia))):
        if not is_z(i2) and i2 == 0 and not is_z(t2) and not is_z(i1):
            if t2 == 0:
                return float("nan") if i1 != 0 else join(Fraction(0), band(o1, o2))
            s = 1 if t2 > 0 else -1
            return join(_mul(t1, t2), band(o1, o2), i1 * s)
        if not is_z(i2) and i2 == 0 and not is_z(t2) and is_z(i1):
            if t2 == 0:
                return join(Fraction(0), band(o1, o2, i1 == 0))
            s = 1 if t2 > 0 else -1
            return join(_mul(t1, t2), band(o1, o2), i1 * s)
    return lift_fin(_mul)(a, b)


def div(ctx, a, b):
    def f(x, y):
        if not is_z(y):
            if y == 0:
                raise ZeroDivisionError
            if not is_z(x):
                return Fraction(x) / Fraction(y)
            if y == 1:
                return x
            return toreal(x) / toreal(y)
        if not is_z(x) and x == 0:
            return Fraction(0)
        return toreal(x) / toreal(y)
    ta, oa, ia = split(a)
    tb, ob, ib = split(b)
    if isinstance(a, P) and not isinstance(b, (P, float)) and not is_z(b) and not isinstance(b, bool) and b != 0:
        return mul(a, Fraction(1) / Fraction(b))     # division by a finite non-zero constant keeps the infinity kind (inf / 2 = inf)
    if not is_z(tb) and not isinstance(tb, bool) and tb == 0 and not is_z(ib) and ib == 0:
        return float("nan")  # x/0 -> inf or nan: not finite
    ok = band(_fin_ok(oa, ia), _fin_ok(ob, ib))
    if is_z(tb):
        nz = DEC.decide(toz(tb) != 0)
        if is_z(nz):
            ctx.side.append(nz)
        ok = band(ok, nz)
    if ok is False:
        return float("nan")
    return with_nan(join(f(ta, tb), ok), bor(nan_of(a), nan_of(b)))


def cmp(op, a, b, force=False):
    if not isinstance(a, (P, float)) and not isinstance(b, (P, float)):
        return _cmp(op, a, b, force)
    ta, oa, ia = split(a)
    tb, ob, ib = split(b)
    # extended-real comparison; not-ok operands -> unconstrained result
    if not is_z(ia) and not is_z(ib):
        if oa is True and ob is True:
            if ia == 0 and ib == 0:
                return _cmp(op, ta, tb)
            # map to extended order using ranks
            ra, rb = ia, ib
            if ia == 0 and ib != 0:
                ra = 0
            return {"lt": ra < rb, "le": ra <= rb, "gt": ra > rb, "ge": ra >= rb, "eq": ra == rb and ra != 0, "ne": not (ra == rb and ra != 0)}[op]
    fin = _cmp(op, ta, tb)
    zia, zib = toz(ia), toz(ib)
    ext = {"lt": zia < zib, "le": zia <= zib, "gt": zia > zib, "ge": zia >= zib, "eq": z3.And(zia == zib), "ne": zia != zib}[op]
    both_fin = z3.And(zia == 0, zib == 0)
    r = z3.If(both_fin, toz(fin), ext)
    okk = band(oa, ob)
    if okk is True:
        return DEC.decide(r)
    u = fresh_for("cmpnan_" + op, toz(okk), r)
    return z3.If(toz(okk), r, u)


def ite(c, a, b):
    """select: c is bool (python/z3, possibly P for not-ok bool)"""
    if isinstance(c, P):
        # comparison result that may be garbage: treat as unconstrained choice
        c = c.t
    if not is_z(c):
        return a if c else b
    if not isinstance(a, (P, float)) and not isinstance(b, (P, float)):
        return _ite(c, a, b)
    ta, oa, ia = split(a)
    tb, ob, ib = split(b)
    na, nb = nan_of(a), nan_of(b)
    r = join(_ite(c, ta, tb), bite(c, oa, ob), bite(c, ia, ib))
    if na is False and nb is False:
        return r
    return with_nan(r, bite(c, na, nb))


def mx(a, b):
    return ite(cmp("ge", a, b), a, b)


def mn(a, b):
    return ite(cmp("le", a, b), a, b)


def absv(a):
    return ite(cmp("ge", a, Fraction(0) if not _is_int(a) else 0), a, neg(a))


def _is_int(a):
    t, _, _ = split(a)
    return isinstance(t, int) and not isinstance(t, bool) or (is_z(t) and z3.is_int(t))


def isnan(ctx, a):
    t, o, i = split(a)
    dn = nan_of(a)
    if o is True:
        return False
    if o is False and not is_z(i):
        return i == 0
    # not provably defined: nan-ness unknown unless definitely NaN / infinite
    u = fresh_for("isnan", toz(o), toz(i), t if is_z(t) else toreal(t))
    return bor(dn, z3.And(z3.Not(toz(o)), toz(i) == 0, u))


def isfinite(ctx, a):
    t, o, i = split(a)
    dn = nan_of(a)
    if o is True and not is_z(i):
        return i == 0
    if o is False:
        return False
    u = fresh_for("isfin", toz(o), toz(i), t if is_z(t) else toreal(t))
    r = z3.And(toz(i) == 0, z3.Or(toz(o), u)) if not (o is True) else (toz(i) == 0)
    return band(bnot(dn), r)


# ----------------------------------------------------------------------------------------
# exp / log normaliser
# ----------------------------------------------------------------------------------------
def znum(e):
    if z3.is_rational_value(e):
        return Fraction(e.numerator_as_long(), e.denominator_as_long())
    if z3.is_int_value(e):
        return Fraction(e.as_long())
    return None


def linform(t):
    """z3 real term -> (const Fraction, {atom_id: (atom, coeff)}) ; atoms are the non-linear subterms"""
    out = {}
    c0 = [Fraction(0)]

    def acc(a, k):
        i = a.get_id()
        if i in out:
            out[i] = (a, out[i][1] + k)
        else:
            out[i] = (a, k)

    def go(e, k):
        n = znum(e)
        if n is not None:
            c0[0] += k * n
            return
        d = e.decl().kind()
        if d == z3.Z3_OP_ADD:
            for ch in e.children():
                go(ch, k)
        elif d == z3.Z3_OP_SUB:
            ch = e.children()
            go(ch[0], k)
            for c in ch[1:]:
                go(c, -k)
        elif d == z3.Z3_OP_UMINUS:
            go(e.children()[0], -k)
        elif d == z3.Z3_OP_TO_REAL and znum(e.children()[0]) is not None:
            c0[0] += k * znum(e.children()[0])
        elif d == z3.Z3_OP_MUL:
            ch = e.children()
            coef = Fraction(1)
            rest = []
            for c in ch:
                n = znum(c)
                if n is not None:
                    coef *= n
                else:
                    rest.append(c)
            if not rest:
                c0[0] += k * coef
            elif len(rest) == 1:
                go(rest[0], k * coef)
            else:
                a = rest[0]
                for r in rest[1:]:
                    a = a * r
                acc(a, k * coef)
        elif d == z3.Z3_OP_DIV and znum(e.children()[1]) is not None and znum(e.children()[1]) != 0:
            go(e.children()[0], k / znum(e.children()[1]))
        else:
            acc(e, k)

    go(t, Fraction(1))
    return c0[0], {i: v for i, v in out.items() if v[1] != 0}


def find_ite(t, depth=0):
    """first If subterm reachable through arithmetic structure"""
    d = t.decl().kind()
    if d == z3.Z3_OP_ITE:
        return t
    if d in (z3.Z3_OP_ADD, z3.Z3_OP_SUB, z3.Z3_OP_UMINUS, z3.Z3_OP_MUL, z3.Z3_OP_DIV, z3.Z3_OP_TO_REAL):
        for c in t.children():
            r = find_ite(c, depth + 1)
            if r is not None:
                return r
    return None


def powq(b, c):
    c = Fraction(c)
    assert c.denominator == 1, c
    n = abs(c.numerator)
    r = None
    for _ in range(n):
        r = b if r is None else r * b
    if r is None:
        return z3.RealVal(1)
    return r if c > 0 else 1 / r


def _encl(kind, c0):
    import mpmath
    mpmath.mp.dps = 50
    x = mpmath.mpf(c0.numerator) / mpmath.mpf(c0.denominator)
    if kind == "exp" and abs(x) > 2000:
        # far beyond any float exponent: a coarse but valid enclosure (exp(-2000) < 1e-800, exp(2000) > 1e800)
        return (z3.RealVal(0), z3.RealVal("1/" + "1" + "0" * 800)) if x < 0 else (z3.RealVal("1" + "0" * 800), z3.RealVal("1" + "0" * 800) * z3.RealVal("1" + "0" * 800) * toreal(Fraction(abs(c0)) + 1))
    v = mpmath.exp(x) if kind == "exp" else mpmath.log(x)
    eps = mpmath.mpf(10) ** -35
    lo, hi = (v * (1 - eps), v * (1 + eps)) if v > 0 else (v * (1 + eps), v * (1 - eps))
    if v == 0:
        lo, hi = -eps, eps

    def q(m):
        return z3.RealVal(mpmath.nstr(m, 45, strip_zeros=False, min_fixed=-1000, max_fixed=1000))
    return q(lo), q(hi)


def _is_log(e):
    return z3.is_app(e) and e.num_args() == 1 and e.decl().kind() == z3.Z3_OP_UNINTERPRETED and e.decl().name() == "LOG"


def _exp_atom(ctx, a):
    """EXP(a) with positivity, sign and pairwise monotonicity facts (w.r.t. earlier atoms)"""
    a = z3.simplify(a)
    e = ctx.EXP(a)
    i = e.get_id()
    if i in ctx.exp_atoms:
        return e
    ctx.facts += [e > 0, (a > 0) == (e > 1), (a == 0) == (e == 1)]
    for j, (b, eb) in list(ctx.exp_atoms.items())[-10:]:
        ctx.facts += [(a < b) == (e < eb), (a == b) == (e == eb),
                      (a + b > 0) == (e * eb > 1), (a + b == 0) == (e * eb == 1)]
    ctx.exp_atoms[i] = (a, e)
    ctx.keep.append(e)
    return e


def _sexp_plain(ctx, t):
    """exp of a plain (finite, defined) value"""
    if not is_z(t):
        if t == 0:
            return Fraction(1)
    t = toreal(t)
    if find_ite(t) is not None:
        t = z3.simplify(t)     # nested Ifs on the same condition collapse before they are counted
    it = find_ite(t)
    if it is not None and _count_ites(t, getattr(ctx, 'ite_cap', 6) + 1) <= getattr(ctx, 'ite_cap', 6):
        c, a, b = it.children()
        ea = _sexp_plain(ctx, z3.substitute(t, (it, a)))
        eb = _sexp_plain(ctx, z3.substitute(t, (it, b)))
        return z3.If(c, toreal(ea), toreal(eb))
    c0, atoms = linform(t)
    res = None

    def m(r, f):
        return f if r is None else r * f
    if c0 != 0:
        e = _exp_atom(ctx, z3.RealVal(str(c0)))
        lo, hi = _encl("exp", c0)
        ctx.facts += [e > lo, e < hi]
        res = m(res, e)
    for i, (a, k) in atoms.items():
        if z3.is_app(a) and a.decl().kind() == z3.Z3_OP_ITE and _count_ites(a, 5) <= 4:
            # a summand that is itself an If: exp(k*If(c,A,B)) = If(c, exp(kA), exp(kB)) - linear in the number of summands
            c_, A_, B_ = a.children()
            kk = z3.RealVal(str(k))
            ea = _sexp_plain(ctx, z3.simplify(kk * A_))
            eb = _sexp_plain(ctx, z3.simplify(kk * B_))
            res = m(res, z3.If(c_, toreal(ea), toreal(eb)))
        elif _is_log(a) and k.denominator == 1:
            res = m(res, powq(a.arg(0), k))
        elif k.denominator == 1 and abs(k.numerator) <= 8:
            e = _exp_atom(ctx, a)
            res = m(res, powq(e, k))
        else:
            ak = a * z3.RealVal(str(k))
            e = _exp_atom(ctx, ak)
            res = m(res, e)
    return res if res is not None else Fraction(1)


def sexp(ctx, v):
    r = _sexp_p(ctx, v)
    nn = nan_of(v)
    return with_nan(r, nn) if (nn is not False and not isinstance(v, float)) else r


def sexp_ovf(ctx, v):
    """exp as computed by the `exp` / `expm1` primitives.  With ctx.exp_overflow = L (C18: L = log of the largest float64) the result carries
    the infinity kind +inf for arguments above L, so that a later 0 * exp(..) (the cotangent of an unselected `where` branch) is recognised as
    NaN.  Off by default: everywhere else floats are exact reals."""
    r = sexp(ctx, v)
    lim = getattr(ctx, "exp_overflow", None)
    if lim is None:
        return r
    t, o, i = split(v)
    if not is_z(t):
        try:
            big = Fraction(t) > Fraction(lim)
        except Exception:  # noqa
            big = False
        return join(Fraction(0), o, 1) if (big and not is_z(i) and i == 0) else r
    rt, ro, ri = split(r)
    over = DEC.decide(toreal(t) > z3.RealVal(str(Fraction(lim))))
    if over is False:
        return r
    if over is True and not is_z(ri) and ri == 0:
        return join(Fraction(0), ro, 1)
    zri = toz(ri) if is_z(ri) else z3.IntVal(int(ri))
    return with_nan(join(rt, ro, z3.If(z3.And(zri == 0, toz(over)), z3.IntVal(1), zri)), nan_of(r))


def _sexp_p(ctx, v):
    t, o, i = split(v)
    if not isinstance(v, (P, float)):
        return _sexp_plain(ctx, t)
    # exp(-inf) = 0, exp(+inf) = +inf
    if not is_z(i):
        if i == -1:
            return join(Fraction(0), o)
        if i == 1:
            return join(Fraction(0), o, 1)
        return join(_sexp_plain(ctx, t), o)
    e = _sexp_plain(ctx, t)
    return join(_ite(i == -1, Fraction(0), e), o, z3.If(i == 1, z3.IntVal(1), z3.IntVal(0)))


def _slog_plain(ctx, u):
    """returns (term, defined_condition)"""
    if not is_z(u):
        if u == 1:
            return Fraction(0), True
        if u <= 0:
            return Fraction(0), False
        l = ctx.LOG(toreal(u))
        lo, hi = _encl("log", Fraction(u))
        ctx.facts += [l > lo, l < hi]
        ctx.log_arg[l.get_id()] = toreal(u)
        ctx.keep.append(l)
        return l, True
    u = toreal(u)
    it = find_ite(u)
    if it is not None and (u.decl().kind() == z3.Z3_OP_ITE or _small_ite_term(u)):
        c, a, b = it.children()
        ua = z3.substitute(u, (it, a))
        ub = z3.substitute(u, (it, b))
        ua_s, ub_s = z3.simplify(ua), z3.simplify(ub)
        la, da = _slog_plain(ctx, ua if znum(ua_s) is None else znum(ua_s))
        lb, db = _slog_plain(ctx, ub if znum(ub_s) is None else znum(ub_s))
        return z3.If(c, toreal(la), toreal(lb)), bite(c, da, db)
    if u.decl().kind() == z3.Z3_OP_UNINTERPRETED and u.decl().name() == "EXP":
        return u.arg(0), True
    # log of a product / quotient containing EXP factors: log(EXP(a) * r) = a + log(r)   (EXP(a) > 0)
    if u.decl().kind() in (z3.Z3_OP_MUL, z3.Z3_OP_DIV):
        lin, rest = _split_exp_factors(u)
        if lin is not None:
            if rest is None:
                return lin, True
            lr, dr = _slog_plain(ctx, rest if znum(rest) is None else znum(rest))
            return toreal(lr) + lin if is_z(lr) or lr != 0 else lin, dr
    u = z3.simplify(u)
    if znum(u) is not None:
        return _slog_plain(ctx, znum(u))
    # log(c / q) = log(c) - log(q) for a positive numeral c (q > 0 is then equivalent to c/q > 0)
    if u.decl().kind() == z3.Z3_OP_DIV and znum(u.arg(0)) is not None and znum(u.arg(0)) > 0:
        lc, _ = _slog_plain(ctx, znum(u.arg(0)))
        lq, dq = _slog_plain(ctx, u.arg(1))
        return toreal(lc) - toreal(lq) if (is_z(lc) or lc != 0) else -toreal(lq), dq
    pos = DEC.decide(u > 0)
    if is_z(pos):
        ctx.side.append(pos)
    l = ctx.LOG(u)
    if l.get_id() not in ctx.log_arg:
        # pairwise monotonicity with the most recent LOG atoms
        for j, v in list(ctx.log_arg.items())[-8:]:
            lv = ctx.LOG(v)
            ctx.facts.append(z3.Implies(z3.And(u > 0, v > 0), z3.And((u < v) == (l < lv), (u == v) == (l == lv))))
        ctx.log_arg[l.get_id()] = u
        ctx.keep.append(l)
        ctx.facts += [z3.Implies(u > 0, z3.And((u > 1) == (l > 0), (u == 1) == (l == 0)))]
    return l, pos


def _count_ites(u, cap):
    seen = set()
    st = [u]
    n = 0
    while st:
        e = st.pop()
        i = e.get_id()
        if i in seen:
            continue
        seen.add(i)
        if z3.is_app(e):
            if e.decl().kind() == z3.Z3_OP_ITE:
                n += 1
                if n >= cap:
                    return n
            st.extend(e.children())
    return n


def _small_ite_term(u, max_ites=3, max_size=80):
    """few If-nodes and small: lifting the Ifs out of LOG cannot blow up"""
    seen = set()
    st = [u]
    ites = 0
    while st:
        e = st.pop()
        i = e.get_id()
        if i in seen:
            continue
        seen.add(i)
        if len(seen) > max_size:
            return False
        if z3.is_app(e):
            if e.decl().kind() == z3.Z3_OP_ITE:
                ites += 1
                if ites > max_ites:
                    return False
            st.extend(e.children())
    return True


def _depth_budget(ctx):
    """bounds the number of If-liftings through LOG per context (each one duplicates the argument)"""
    ctx.lifts = getattr(ctx, "lifts", 0) + 1
    return ctx.lifts <= 8


def _split_exp_factors(u):
    """u = prod_i f_i^(+-1): returns (sum of args of the EXP factors with sign, product of the other factors or None);
    (None, None) when no EXP factor is present"""
    lin = []
    rest_num, rest_den = [], []

    def walk(e, sign):
        k = e.decl().kind()
        if k == z3.Z3_OP_MUL:
            for c in e.children():
                walk(c, sign)
        elif k == z3.Z3_OP_DIV:
            walk(e.arg(0), sign)
            walk(e.arg(1), -sign)
        elif k == z3.Z3_OP_UNINTERPRETED and e.decl().name() == "EXP":
            lin.append(e.arg(0) if sign > 0 else -e.arg(0))
        else:
            (rest_num if sign > 0 else rest_den).append(e)
    walk(u, 1)
    if not lin:
        return None, None
    tot = lin[0]
    for t in lin[1:]:
        tot = tot + t
    rest = None
    if rest_num or rest_den:
        num = None
        for f in rest_num:
            num = f if num is None else num * f
        den = None
        for f in rest_den:
            den = f if den is None else den * f
        num = z3.RealVal(1) if num is None else num
        rest = num if den is None else num / den
        rest = z3.simplify(rest)
        if znum(rest) is not None and znum(rest) == 1:
            rest = None
    return tot, rest


def slog(ctx, v):
    t, o, i = split(v)
    l, d = _slog_plain(ctx, t)
    if not isinstance(v, (P, float)):
        r = join(l, d)
        if d is True:
            return r
        # log of a negative real is NaN (definitely); log(0) = -inf (definitely)
        neg_arg = DEC.decide(toreal(t) < 0) if is_z(t) else (t < 0)
        zero_arg = DEC.decide(toreal(t) == 0) if is_z(t) else (t == 0)
        if zero_arg is not False:
            rt, ro, ri = split(r)
            r = P(rt, bor(ro, zero_arg), bite(zero_arg, -1, 0) if is_z(zero_arg) else (-1 if zero_arg else 0))
        return with_nan(r, neg_arg) if isinstance(r, P) or neg_arg is not False else r
    ok = band(o, d if not is_z(i) else z3.Or(i != 0, toz(d)))
    # log(+inf) = +inf ; log(0) = -inf is treated as not-ok (conservative)
    if not is_z(i):
        if i == 1:
            return join(Fraction(0), o, 1)
        if i == -1:
            return float("nan")
        return join(l, ok)
    # symbolic infinity kind: log(+inf) = +inf, log(-inf) = NaN (definitely), otherwise the log of the finite value (with its own
    # definite-NaN / log(0) = -inf tracking)
    r0 = slog(ctx, t)
    rt, ro, ri0 = split(r0)
    n0 = nan_of(r0)
    zi0 = toz(ri0) if is_z(ri0) else z3.IntVal(int(ri0))
    okk = band(o, bite(i == 1, True, bite(i == -1, False, ro)))
    inf = z3.If(i == 1, z3.IntVal(1), z3.If(i == 0, zi0, z3.IntVal(0)))
    nn = bor(i == -1, band(i == 0, n0)) if n0 is not False else (i == -1)
    return with_nan(join(rt, okk, inf), band(o, nn) if o is not True else nn)


def _ssqrt_plain(ctx, u):
    if not is_z(u):
        r = Fraction(u)
        if r < 0:
            return Fraction(0), False
        s = Fraction(math.isqrt(r.numerator), math.isqrt(r.denominator))
        if s * s == r:
            return s, True
        u = toreal(u)
    u = toreal(u)
    i = u.get_id()
    if i not in ctx.sqrt_memo:
        s = ctx.fresh("sqrt")
        ctx.facts += [s >= 0, z3.Implies(u >= 0, s * s == u)]
        ctx.sqrt_memo[i] = (s, u)
    s = ctx.sqrt_memo[i][0]
    nn = DEC.decide(u >= 0)
    if is_z(nn):
        ctx.side.append(nn)
    return s, nn


def ssqrt(ctx, v):
    t, o, i = split(v)
    s, d = _ssqrt_plain(ctx, t)
    return join(s, band(_fin_ok(o, i), d))


# ----------------------------------------------------------------------------------------
# arrays
# ----------------------------------------------------------------------------------------
def oarr(x):
    if isinstance(x, np.ndarray) and x.dtype == object:
        return x
    if is_sym(x):
        a = np.empty((), dtype=object)
        a[()] = x
        return a
    xa = np.asarray(x)
    a = np.empty(xa.shape, dtype=object)
    if a.shape == ():
        a[()] = conc(xa[()])
        return a
    flat = xa.ravel()
    a.ravel()[:] = [conc(v) for v in flat]
    return a


def oarr_s(v):
    a = np.empty((), dtype=object)
    a[()] = v
    return a


def emap(f, *arrs):
    arrs = [a if isinstance(a, np.ndarray) else np.asarray(a, dtype=object) for a in arrs]
    arrs = np.broadcast_arrays(*arrs)
    out = np.empty(arrs[0].shape, dtype=object)
    for idx in np.ndindex(out.shape):
        out[idx] = f(*[a[idx] for a in arrs])
    return out


def symarr(name, shape, sort=None):
    sort = z3.RealSort() if sort is None else sort
    a = np.empty(shape, dtype=object)
    for idx in np.ndindex(tuple(shape)):
        a[idx] = z3.Const(name + "".join(f"_{i}" for i in idx), sort)
    return a


def all_conc(a):
    return all(not is_sym(v) for v in np.asarray(a, dtype=object).ravel())


def case_split_int(idx, lo, hi, f):
    """idx symbolic int scalar; f(concrete) -> object array; merge with If over clamped [lo,hi]."""
    if not is_sym(idx):
        return f(min(max(int(idx), lo), hi))
    if isinstance(idx, P):
        idx = idx.t
    res = None
    cands = []
    for v in range(lo, hi + 1):
        cond = (idx <= v) if v == lo else ((idx >= v) if v == hi else (idx == v))
        if lo == hi:
            cond = True
        d = DEC.decide(cond) if is_z(cond) else cond
        if d is True:
            return f(v)
        if d is False:
            continue
        cands.append((v, cond))
    if not cands:
        raise Unsupported("index case split: no feasible value")
    res = f(cands[-1][0])
    for v, cond in reversed(cands[:-1]):
        rv = f(v)
        res = emap(lambda a, b, c=cond: ite(c, a, b), rv, res)
    return res


def _literal_types():
    ts = []
    for mod in ("jax.extend.core", "jax._src.core", "jax.core"):
        try:
            m = __import__(mod, fromlist=["Literal"])
            if hasattr(m, "Literal"):
                ts.append(m.Literal)
        except Exception:
            pass
    return tuple(ts)


_LIT = _literal_types()


class Interp:
    def __init__(self, ctx=None, hooks=None):
        self.ctx = ctx or Ctx()
        self.hooks = hooks or {}
        self.prims = set()
        self.abstract = {}     # id(z3 term) -> fresh variable (solver-justified cut of an internal quantity)

    def _abstract(self, o):
        def key(v):
            if is_z(v):
                return v.get_id()
            if isinstance(v, P) and is_z(v.t):
                return v.t.get_id()
            return None
        if not any(key(v) in self.abstract for v in o.ravel()):
            return o
        o = o.copy()
        for idx in np.ndindex(o.shape):
            k = key(o[idx])
            if k in self.abstract:
                o[idx] = self.abstract[k]   # definedness of the abstracted quantity is part of the proved lemma
        return o

    def run(self, closed, *args):
        args = [oarr(a) for a in args]
        return self.eval(closed.jaxpr, [oarr(c) for c in closed.consts], *args)

    def eval(self, jaxpr, consts, *args):
        env = {}

        def read(v):
            if isinstance(v, _LIT):
                return oarr(v.val)
            return env[v]
        for v, c in zip(jaxpr.constvars, consts):
            env[v] = c
        assert len(jaxpr.invars) == len(args), (len(jaxpr.invars), len(args))
        for v, a in zip(jaxpr.invars, args):
            if hasattr(v, "aval") and hasattr(v.aval, "shape") and not _is_key_aval(v.aval):
                assert tuple(np.shape(a)) == tuple(v.aval.shape), ("input shape", np.shape(a), v.aval)
            env[v] = a
        for e in jaxpr.eqns:
            ins = [read(v) for v in e.invars]
            outs = self.prim(e, ins)
            if not isinstance(outs, (list, tuple)):
                outs = [outs]
            assert len(outs) == len(e.outvars), (e.primitive.name, len(outs), len(e.outvars))
            for v, o in zip(e.outvars, outs):
                if not isinstance(o, np.ndarray):
                    o = oarr(o)
                if self.abstract:
                    o = self._abstract(o)
                if hasattr(v, "aval") and hasattr(v.aval, "shape") and not _is_key_aval(v.aval):
                    if tuple(o.shape) != tuple(v.aval.shape):
                        raise Unsupported(f"shape mismatch in {e.primitive.name}: {o.shape} vs {v.aval.shape}")
                env[v] = o
        return [read(v) for v in jaxpr.outvars]

    def sub(self, cj, ins):
        if hasattr(cj, "jaxpr") and hasattr(cj, "consts"):
            return self.eval(cj.jaxpr, [oarr(c) for c in cj.consts], *ins)
        return self.eval(cj, [], *ins)

    # ------------------------------------------------------------------------------
    def prim(self, e, ins):
        p = e.primitive.name
        P_ = e.params
        ctx = self.ctx
        self.prims.add(p)

        def E(f):
            return emap(f, *ins)
        if p in self.hooks and p not in ("while", "scan_iter", "while_unroll"):
            return self.hooks[p](self, e, ins)
        if p in ("jit", "pjit", "closed_call", "core_call", "remat", "checkpoint", "custom_vjp_call", "custom_vjp_call_jaxpr"):
            name = P_.get("name", "")
            if name == "branched_error_if_impl":
                return self._error_if(e, ins)
            cj = P_.get("jaxpr") or P_.get("call_jaxpr") or P_.get("fun_jaxpr")
            return self.sub(cj, ins)
        if p == "custom_jvp_call":
            return self.sub(P_["call_jaxpr"], ins)
        if p in ("add", "add_any"):
            return E(add)
        if p == "sub":
            return E(sub)
        if p == "mul":
            return E(mul)
        if p == "neg":
            return E(neg)
        if p == "div":
            dt = e.outvars[0].aval.dtype
            if np.issubdtype(dt, np.integer):
                return E(lift_fin(_idiv))
            return E(lambda a, b: div(ctx, a, b))
        if p == "rem":
            return E(lift_fin(_irem))
        if p == "max":
            return E(mx)
        if p == "min":
            return E(mn)
        if p == "abs":
            return E(absv)
        if p in ("floor", "ceil"):
            def fl(a):
                def f(t):
                    if not is_z(t):
                        return Fraction(math.floor(Fraction(t)) if p == "floor" else math.ceil(Fraction(t)))
                    tt = toreal(t)
                    return z3.ToReal(z3.ToInt(tt)) if p == "floor" else -z3.ToReal(z3.ToInt(-tt))
                return lift_fin(f)(a)
            return E(fl)
        if p == "log2":
            return E(lambda a: div(ctx, slog(ctx, a), slog(ctx, Fraction(2))))
        if p == "sign":
            def sg(a):
                z = 0 if _is_int(a) else Fraction(0)
                o = 1 if _is_int(a) else Fraction(1)
                return ite(cmp("gt", a, z), o, ite(cmp("lt", a, z), -o, z))
            return E(sg)
        if p in ("lt", "le", "gt", "ge", "eq", "ne"):
            if p == "ne" and e.invars[0] is e.invars[1]:
                return emap(lambda a: isnan(ctx, a), ins[0])

            def c2(a, b):
                r = cmp(p, a, b)
                if is_z(r) and DEC.solver is not None and p in ("lt", "le", "gt", "ge") and not isinstance(a, (P, float)) and not isinstance(b, (P, float)):
                    r2 = cmp_exp(ctx, p, a, b)
                    if r2 is not None and not is_z(r2):
                        return r2
                return r
            return E(c2)
        if p in ("le_to", "lt_to"):
            return E(lambda a, b: cmp(p[:2], a, b, force=True))
        if p in ("and", "or", "not", "xor"):
            isint = np.issubdtype(_aval_dtype(e.outvars[0].aval), np.integer)
            if isint and not all(all_conc(a) for a in ins):
                return self._opaque(e, ins)   # bit tricks of the PRNG / uniform sampler: uninterpreted (congruence only)
            if p == "and":
                return E(lambda a, b: _bitop(band, a, b))
            if p == "or":
                return E(lambda a, b: _bitop(bor, a, b))
            if p == "xor":
                return E(lambda a, b: (split(a)[0] ^ split(b)[0]) if not (is_z(split(a)[0]) or is_z(split(b)[0])) else z3.Xor(toz(split(a)[0]), toz(split(b)[0])))
            return E(lambda a: bnot(split(a)[0]))
        if p == "select_n":
            if len(ins) == 3:
                def sel(c, a, b):
                    ct = split(c)[0]
                    if is_z(ct) and z3.is_int(ct):
                        ct = ct != 0
                    if not is_z(ct):
                        ct = bool(ct)
                    return ite(ct, b, a)
                return emap(sel, *ins)
            # n-ary with integer selector
            def seln(c, *cs):
                ct = split(c)[0]
                if not is_z(ct):
                    return cs[int(ct)]
                r = cs[-1]
                for k in range(len(cs) - 2, -1, -1):
                    r = ite(ct == k, cs[k], r)
                return r
            return emap(seln, *ins)
        if p == "exp":
            return E(lambda a: sexp_ovf(ctx, a))
        if p == "exp2":
            raise Unsupported("exp2")
        if p == "log":
            return E(lambda a: slog(ctx, a))
        if p == "log1p":
            return E(lambda a: slog(ctx, add(Fraction(1), a)))
        if p == "expm1":
            return E(lambda a: sub(sexp_ovf(ctx, a), Fraction(1)))
        if p == "tanh":
            def th(a):
                e2 = sexp(ctx, mul(Fraction(2), a))
                return sub(Fraction(1), div(ctx, Fraction(2), add(e2, Fraction(1))))
            return E(th)
        if p == "atanh":
            def ath(a):
                t, o, i = split(a)
                inside = band(cmp("gt", a, Fraction(-1)), cmp("lt", a, Fraction(1)))
                r = div(ctx, sub(slog(ctx, add(Fraction(1), a)), slog(ctx, sub(Fraction(1), a))), Fraction(2))
                rt, ro, ri = split(r)
                return join(rt, band(ro, inside), ri)
            return E(ath)
        if p == "logistic":
            return E(lambda a: div(ctx, Fraction(1), add(Fraction(1), sexp(ctx, neg(a)))))
        if p == "sqrt":
            return E(lambda a: ssqrt(ctx, a))
        if p == "rsqrt":
            return E(lambda a: div(ctx, Fraction(1), ssqrt(ctx, a)))
        if p == "square":
            return E(lambda a: mul(a, a))
        if p == "one_minus_square":
            return E(lambda a: sub(Fraction(1), mul(a, a)))
        if p == "integer_pow":
            y = P_["y"]

            def ip(a):
                if y == 0:
                    return Fraction(1)
                r = a
                for _ in range(abs(y) - 1):
                    r = mul(r, a)
                return r if y > 0 else div(ctx, Fraction(1), r)
            return E(ip)
        if p == "pow":
            def pw(a, b):
                tb = split(b)[0]
                if not is_z(tb) and Fraction(tb).denominator == 1:
                    y = int(tb)
                    if y == 0:
                        return Fraction(1)
                    r = a
                    for _ in range(abs(y) - 1):
                        r = mul(r, a)
                    return r if y > 0 else div(ctx, Fraction(1), r)
                # a ** b = exp(b log a), a > 0
                return sexp(ctx, mul(b, slog(ctx, a)))
            return E(pw)
        if p == "convert_element_type":
            nd = np.dtype(P_["new_dtype"])
            return emap(lambda a: _convert(a, nd), ins[0])
        if p in ("stop_gradient", "copy", "copy_p", "optimization_barrier", "pvary", "reduce_precision"):
            return ins if len(ins) > 1 else ins[0]
        if p == "is_finite":
            return emap(lambda a: isfinite(ctx, a), ins[0])
        if p == "unvmap_any":
            r = False
            for v in ins[0].ravel():
                r = bor(r, split(v)[0])
            return oarr_s(r)
        if p == "unvmap_max":
            r = None
            for v in ins[0].ravel():
                r = v if r is None else mx(r, v)
            return oarr_s(r)
        if p == "iota":
            return oarr(np.asarray(jax.lax.broadcasted_iota(P_["dtype"], P_["shape"], P_["dimension"])))
        if p == "broadcast_in_dim":
            x = ins[0]
            shape = P_["shape"]
            bd = P_["broadcast_dimensions"]
            sh = [1] * len(shape)
            for i, d in enumerate(bd):
                sh[d] = x.shape[i]
            return np.broadcast_to(x.reshape(sh), shape).copy()
        if p == "reshape":
            return ins[0].reshape(P_["new_sizes"])
        if p == "squeeze":
            return np.squeeze(ins[0], axis=tuple(P_["dimensions"]))
        if p == "expand_dims":
            return np.expand_dims(ins[0], tuple(P_["dimensions"]))
        if p == "transpose":
            return np.transpose(ins[0], P_["permutation"])
        if p == "rev":
            r_ = np.flip(ins[0], axis=tuple(P_["dimensions"]))
            return r_.copy() if isinstance(r_, np.ndarray) else r_
        if p == "slice":
            st = P_["strides"] or [1] * len(P_["start_indices"])
            sl = tuple(slice(s, l, k) for s, l, k in zip(P_["start_indices"], P_["limit_indices"], st))
            return ins[0][sl].copy()
        if p == "concatenate":
            return np.concatenate(ins, axis=P_["dimension"])
        if p == "stack":
            return np.stack(ins, axis=P_["axis"])
        if p == "unstack":
            ax = P_["axis"]
            return [np.take(ins[0], i, axis=ax) for i in range(ins[0].shape[ax])]
        if p == "split":
            idx = np.cumsum(P_["sizes"])[:-1]
            return list(np.split(ins[0], idx, axis=P_["axis"]))
        if p in ("empty", "empty2"):
            shp = _aval_shape(e.outvars[0].aval)
            # uninitialised placeholder (unused residual slots of platform-dependent cond branches): floats are poisoned with NaN so
            # that any arithmetic use fails a definedness obligation instead of silently reading a made-up value
            z = 0 if np.issubdtype(_aval_dtype(e.outvars[0].aval), np.integer) else float("nan")
            o = np.empty(shp, dtype=object)
            o[...] = z
            return o
        if p == "pad":
            x, pv = ins
            cfg = P_["padding_config"]
            if not all(i == 0 for lo, hi, i in cfg):
                raise Unsupported("pad config (interior padding)")
            # negative low/high padding crops; positive pads with the padding value
            pos = [(max(lo, 0), max(hi, 0)) for lo, hi, _ in cfg]
            out = np.empty(tuple(lo + s + hi for (lo, hi), s in zip(pos, x.shape)), dtype=object)
            out[...] = pv[()]
            out[tuple(slice(lo, lo + s) for (lo, hi), s in zip(pos, x.shape))] = x
            crop = tuple(slice(max(-lo, 0), out.shape[d] - max(-hi, 0)) for d, (lo, hi, _) in enumerate(cfg))
            return out[crop].copy()
        if p == "reduce_sum":
            return self._reduce(ins[0], P_["axes"], add, 0 if np.issubdtype(e.outvars[0].aval.dtype, np.integer) else Fraction(0))
        if p == "reduce_prod":
            return self._reduce(ins[0], P_["axes"], mul, 1 if np.issubdtype(e.outvars[0].aval.dtype, np.integer) else Fraction(1))
        if p == "reduce_max":
            return self._reduce(ins[0], P_["axes"], mx, None)
        if p == "reduce_min":
            return self._reduce(ins[0], P_["axes"], mn, None)
        if p == "reduce_and":
            return self._reduce(ins[0], P_["axes"], lambda a, b: _bitop(band, a, b), True)
        if p == "reduce_or":
            return self._reduce(ins[0], P_["axes"], lambda a, b: _bitop(bor, a, b), False)
        if p in ("argmax", "argmin"):
            return self._argext(e, ins, p)
        if p in ("cumsum", "cumprod", "cummax", "cummin", "cumlogsumexp"):
            if p == "cumlogsumexp":
                raise Unsupported(p)
            f = {"cumsum": add, "cumprod": mul, "cummax": mx, "cummin": mn}[p]
            x = ins[0]
            ax = P_["axis"]
            out = x.copy()
            rng = range(x.shape[ax]) if not P_.get("reverse") else range(x.shape[ax] - 1, -1, -1)
            prev = None
            for i in rng:
                sl = [slice(None)] * x.ndim
                sl[ax] = i
                cur = x[tuple(sl)] if prev is None else emap(f, prev, x[tuple(sl)])
                if isinstance(cur, np.ndarray) and cur.shape == ():
                    cur = cur[()]
                out[tuple(sl)] = cur
                prev = cur
            return out
        if p == "dot_general":
            return self._dot(e, ins)
        if p == "dynamic_slice":
            x = ins[0]
            starts = [a[()] for a in ins[1:]]
            sizes = P_["slice_sizes"]

            def rec(d, chosen):
                if d == len(starts):
                    return x[tuple(slice(c, c + s) for c, s in zip(chosen, sizes))].copy()
                return case_split_int(starts[d], 0, x.shape[d] - sizes[d], lambda v: rec(d + 1, chosen + [v]))
            return rec(0, [])
        if p == "dynamic_update_slice":
            x, u = ins[0], ins[1]
            starts = [a[()] for a in ins[2:]]

            def rec(d, chosen):
                if d == len(starts):
                    o = x.copy()
                    o[tuple(slice(c, c + s) for c, s in zip(chosen, u.shape))] = u
                    return o
                return case_split_int(starts[d], 0, x.shape[d] - u.shape[d], lambda v: rec(d + 1, chosen + [v]))
            return rec(0, [])
        if p in ("gather", "scatter", "scatter-add", "scatter_add"):
            return self._gs(e, ins)
        if p == "scan":
            return self._scan(e, ins)
        if p == "while":
            return self._while(e, ins)
        if p == "cond":
            idx = split(ins[0][()])[0]
            brs = P_["branches"]
            if not is_z(idx):
                return self.sub(brs[int(idx)], ins[1:])
            if z3.is_bool(idx):
                idx = z3.If(idx, z3.IntVal(1), z3.IntVal(0))
            outs = None
            for k in range(len(brs) - 1, -1, -1):
                cond = DEC.decide((idx <= k) if k == 0 else ((idx >= k) if k == len(brs) - 1 else (idx == k)))
                if cond is False:
                    continue
                ok_ = self.sub(brs[k], ins[1:])
                if cond is True:
                    return ok_
                outs = ok_ if outs is None else [emap(lambda a, b, c=cond: ite(c, a, b), x, y) for x, y in zip(ok_, outs)]
            return outs
        if p == "platform_index":
            return oarr(0)
        if p == "triangular_solve":
            return self._trisolve(e, ins)
        if p == "sort":
            return self._sort(e, ins)
        if p == "clamp":
            lo, x, hi = ins
            return emap(lambda l, v, h: mn(mx(v, l), h), lo, x, hi)
        if p == "erf_inv" or p == "lgamma" or p == "digamma" or p == "erf" or p == "erfc" or p == "tan" or p == "sin" or p == "cos" or p == "igamma" or p == "random_gamma_grad":
            f = ctx.ufun("UF_" + p, *([z3.RealSort()] * (len(ins) + 1)))
            return E(lift_fin(lambda *a: f(*[toreal(x) for x in a])))
        if p in ("random_wrap", "random_unwrap"):
            return ins[0]     # key arrays are represented by their raw uint32[..., 2] data
        if p in ("random_bits", "random_split", "random_fold_in"):
            return self._random(e, ins)
        if p in ("random_seed",
                 "threefry2x32", "random_clone", "shift_right_logical", "shift_left", "bitcast_convert_type",
                 "population_count", "erf_inv", "random_gamma", "nextafter", "shift_right_arithmetic", "clz"):
            return self._opaque(e, ins)
        if p == "pure_callback" or p == "debug_callback" or p == "io_callback":
            raise Unsupported(p)
        if p == "empty":
            return oarr(np.zeros(P_["shape"], P_["dtype"]))
        if p == "full_like" or p == "zeros_like":
            return emap(lambda a: 0, ins[0])
        raise Unsupported(p + " " + str({k: v for k, v in P_.items() if k != "jaxpr"})[:300])

    # ------------------------------------------------------------------------------
    def _error_if(self, e, ins):
        """eqx.error_if: jit[name=branched_error_if_impl](values..., pred) -> (0, values...); the predicate is recorded"""
        pred = ins[-1]
        p = False
        for v in np.asarray(pred, dtype=object).ravel():
            p = bor(p, split(v)[0])
        self.ctx.errors.append(p)
        vals = list(ins[:-1])
        n = len(e.outvars)
        if n == len(vals) + 1:
            return [oarr(0)] + vals
        if n == len(vals):
            return vals
        raise Unsupported("error_if layout")

    def _random(self, e, ins):
        """PRNG primitives are elementwise over leading key-batch dimensions (as under vmap): one uninterpreted function per
        output position, applied to the two words of EACH key (same key => same bits, different slots => different functions)"""
        p = e.primitive.name
        ctx = self.ctx
        keys = ins[0]
        kb = keys.shape[:-1]
        extra = [split(v)[0] for a in ins[1:] for v in a.ravel()]
        if p == "random_split":
            oshape = tuple(e.params["shape"])
            words = 2
        elif p == "random_bits":
            oshape = tuple(e.params["shape"])
            words = 1
        else:
            oshape = ()
            words = 2
        out = np.empty(kb + oshape + ((2,) if words == 2 else ()), dtype=object)
        tag = f"{p}_{e.params.get('bit_width', '')}_{'x'.join(map(str, oshape))}"
        self._rand_calls = getattr(self, "_rand_calls", 0) + 1
        for bi in np.ndindex(kb):
            k0, k1 = (toz(split(v)[0]) for v in keys[bi])
            if p in ("random_bits", "random_split"):
                # key hygiene: which key is consumed by which draw / split (one entry per primitive application and key)
                ctx.key_uses.append((p, self._rand_calls, k0, k1))
            args = [k0, k1] + [toz(x) if not isinstance(x, Fraction) else toreal(x) for x in (extra if p == "random_fold_in" else [])]
            for oi in np.ndindex(oshape):
                for w in range(words):
                    f = ctx.ufun(f"UF_{tag}_{'_'.join(map(str, oi))}_{w}", *([a.sort() for a in args] + [z3.IntSort()]))
                    idx = bi + oi + ((w,) if words == 2 else ())
                    out[idx] = f(*args)
        return out

    def _opaque(self, e, ins):
        """uninterpreted function of the flattened inputs, one fresh UF per (primitive, params, output position)"""
        p = e.primitive.name
        ctx = self.ctx
        ELEMENTWISE = ("shift_right_logical", "shift_left", "shift_right_arithmetic", "and", "or", "xor", "not", "population_count", "clz", "nextafter", "bitcast_convert_type")
        if p in ELEMENTWISE and len(e.outvars) == 1:
            oshape = _aval_shape(e.outvars[0].aval)
            try:
                bins = np.broadcast_arrays(*[np.asarray(a, dtype=object) for a in ins])
                elementwise = tuple(bins[0].shape) == tuple(oshape)
            except ValueError:
                elementwise = False
            if elementwise:
                pk = str(sorted((k, str(v)) for k, v in e.params.items()))
                isint = not np.issubdtype(_aval_dtype(e.outvars[0].aval), np.floating)
                rs = z3.IntSort() if isint else z3.RealSort()
                out = np.empty(oshape, dtype=object)
                for idx in np.ndindex(tuple(oshape)):
                    args = []
                    for b_ in bins:
                        t = split(b_[idx])[0]
                        zt = toz(t) if not isinstance(t, Fraction) else toreal(t)
                        if z3.is_bool(zt):
                            zt = z3.If(zt, z3.IntVal(1), z3.IntVal(0))
                        args.append(zt)
                    if all(znum(a_) is not None for a_ in args) and False:
                        pass
                    f = ctx.ufun(f"UF_{p}_{abs(hash(pk)) % 10**8}_ew", *([a_.sort() for a_ in args] + [rs]))
                    out[idx] = f(*args)
                return [out]
        flat = []
        for a in ins:
            for v in a.ravel():
                t = split(v)[0]
                zt = toz(t) if not isinstance(t, Fraction) else toreal(t)
                if z3.is_bool(zt):
                    zt = z3.If(zt, z3.IntVal(1), z3.IntVal(0))
                flat.append(zt)
        pk = str(sorted((k, str(v)) for k, v in e.params.items()))
        outs = []
        for oi, ov in enumerate(e.outvars):
            shape = _aval_shape(ov.aval)
            isint = not np.issubdtype(_aval_dtype(ov.aval), np.floating)
            rs = z3.IntSort() if isint else z3.RealSort()
            out = np.empty(shape, dtype=object)
            for k, idx in enumerate(np.ndindex(tuple(shape))):
                f = ctx.ufun(f"UF_{p}_{abs(hash(pk)) % 10**8}_{oi}_{k}", *([x.sort() for x in flat] + [rs]))
                out[idx] = f(*flat) if flat else ctx.fresh(f"UF_{p}", rs)
            outs.append(out)
        return outs

    def _reduce(self, x, axes, f, init):
        axes = tuple(axes)
        if not axes:
            return x
        xm = np.moveaxis(x, axes, list(range(len(axes))))
        rest = xm.shape[len(axes):]
        xm = xm.reshape((-1,) + rest)
        out = np.empty(rest, dtype=object)
        for idx in np.ndindex(rest):
            acc = None
            for i in range(xm.shape[0]):
                acc = xm[(i,) + idx] if acc is None else f(acc, xm[(i,) + idx])
            out[idx] = init if acc is None else acc
        return out

    def _argext(self, e, ins, p):
        x = ins[0]
        (ax,) = e.params["axes"]
        xm = np.moveaxis(x, ax, 0)
        out = np.empty(xm.shape[1:], dtype=object)
        for idx in np.ndindex(xm.shape[1:]):
            best, bi = xm[(0,) + idx], 0
            for i in range(1, xm.shape[0]):
                v = xm[(i,) + idx]
                better = cmp("gt" if p == "argmax" else "lt", v, best)
                bi = ite(better, i, bi)
                best = ite(better, v, best)
            out[idx] = bi
        return out

    def _dot(self, e, ins):
        (ca, cb), (ba, bb) = e.params["dimension_numbers"]
        a, b = ins
        if ba or bb:
            # batch dims: move to front and loop
            a2 = np.moveaxis(a, list(ba), list(range(len(ba))))
            b2 = np.moveaxis(b, list(bb), list(range(len(bb))))
            ca2 = [_shift_axis(c, ba, a.ndim) for c in ca]
            cb2 = [_shift_axis(c, bb, b.ndim) for c in cb]
            bshape = a2.shape[:len(ba)]
            outs = None
            res = {}
            for bi in np.ndindex(bshape):
                res[bi] = self._dot_nobatch(a2[bi], b2[bi], [c - len(ba) for c in ca2], [c - len(bb) for c in cb2])
            sample = next(iter(res.values()))
            out = np.empty(bshape + sample.shape, dtype=object)
            for bi, r in res.items():
                out[bi] = r
            return out
        return self._dot_nobatch(a, b, list(ca), list(cb))

    def _dot_nobatch(self, a, b, ca, cb):
        a2 = np.moveaxis(a, list(ca), list(range(a.ndim - len(ca), a.ndim)))
        b2 = np.moveaxis(b, list(cb), list(range(len(cb))))
        k = int(np.prod([a.shape[i] for i in ca])) if ca else 1
        A = a2.reshape(-1, k)
        B = b2.reshape(k, -1)
        out = np.empty((A.shape[0], B.shape[1]), dtype=object)
        for i in range(A.shape[0]):
            for j in range(B.shape[1]):
                s = None
                for t in range(k):
                    m = mul(A[i, t], B[t, j])
                    s = m if s is None else add(s, m)
                out[i, j] = Fraction(0) if s is None else s
        return out.reshape(a2.shape[:a.ndim - len(ca)] + b2.shape[len(cb):])

    def _gs(self, e, ins):
        """gather/scatter executed by JAX itself on arrays of element ids (concrete indices);
        symbolic scalar indices -> case split over their range"""
        p = e.primitive.name
        P_ = e.params
        if p == "gather":
            x, idx = ins

            def conc_gather(ci):
                ids = jnp.arange(x.size, dtype=jnp.int32).reshape(x.shape)
                P2 = dict(P_)
                fill = P2.get("fill_value")
                r = np.asarray(lax.gather_p.bind(ids, jnp.asarray(ci, dtype=e.invars[1].aval.dtype), **dict(P2, fill_value=-1 if fill is None else fill)))
                flat = x.ravel()
                if not r.size:
                    return np.empty(r.shape, dtype=object)

                def pick(i):
                    if int(i) < 0:
                        return float("nan")
                    return flat[int(i)]
                return emap(pick, r)
            if all_conc(idx):
                return conc_gather(np.array(idx.tolist()))
            return self._split_idx(idx, conc_gather, x.shape)
        x, idx, upd = ins

        def conc_scatter(ci):
            n = x.size
            cidx = jnp.asarray(ci, dtype=e.invars[1].aval.dtype)
            if p == "scatter":
                ids = jnp.arange(n, dtype=jnp.int32).reshape(x.shape)
                uids = (n + jnp.arange(upd.size, dtype=jnp.int32)).reshape(upd.shape)
                r = np.asarray(lax.scatter_p.bind(ids, cidx, uids, **P_))
                allv = list(x.ravel()) + list(upd.ravel())
                return emap(lambda i: allv[int(i)], r)
            out = x.copy().ravel().tolist()
            odt = e.invars[0].aval.dtype
            for j, uv in enumerate(upd.ravel()):
                one = jnp.zeros(upd.size, odt).at[j].set(1).reshape(upd.shape)
                ind = np.asarray(lax.scatter_add_p.bind(jnp.zeros(x.shape, odt), cidx, one, **P_)).ravel()
                for k in np.nonzero(ind)[0]:
                    out[k] = add(out[k], uv)
            o = np.empty(x.size, dtype=object)
            o[:] = out
            return o.reshape(x.shape)
        if all_conc(idx):
            return conc_scatter(np.array(idx.tolist()))
        return self._split_idx(idx, conc_scatter, x.shape)

    def _split_idx(self, idx, f, xshape):
        flat = [split(v)[0] for v in idx.ravel()]
        sym_pos = [i for i, v in enumerate(flat) if is_z(v)]
        if len(sym_pos) > 3:
            raise Unsupported("too many symbolic indices")
        bound = max(xshape) if xshape else 1

        def rec(k, cur):
            if k == len(sym_pos):
                return f(np.array(cur, dtype=np.int64).reshape(idx.shape))
            i = sym_pos[k]

            def g(v):
                c2 = list(cur)
                c2[i] = v
                return rec(k + 1, c2)
            # JAX clamps / wraps out-of-range gather indices depending on mode; indices
            # produced by flowjax code are in [-bound, bound] in every harness (asserted by decide)
            return case_split_int(flat[i], -bound, bound, g)
        return rec(0, [0 if is_z(v) else int(v) for v in flat])

    def _scan(self, e, ins):
        P_ = e.params
        if "num_consts" in P_:
            nc, ncar = P_["num_consts"], P_["num_carry"]
        else:
            c_, ca_, xs_ = P_["ft_in"].unpack()
            nc, ncar = len(c_), len(ca_)
            assert nc + ncar + len(xs_) == len(ins), (P_["ft_in"], len(ins))
        consts, carry, xs = ins[:nc], list(ins[nc:nc + ncar]), ins[nc + ncar:]
        L = P_["length"]
        ys = []
        order = range(L - 1, -1, -1) if P_["reverse"] else range(L)
        for i in order:
            xi = [x[i] if isinstance(x[i], np.ndarray) else oarr_s(x[i]) for x in xs]
            outs = self.sub(P_["jaxpr"], list(consts) + carry + xi)
            carry = list(outs[:ncar])
            ys.append(outs[ncar:])
            if "scan_iter" in self.hooks:
                carry = self.hooks["scan_iter"](self, i, carry)
        if P_["reverse"]:
            ys = ys[::-1]
        nys = len(e.outvars) - ncar
        stacked = []
        for k in range(nys):
            if ys:
                stacked.append(np.stack([y[k] for y in ys]))
            else:
                stacked.append(np.empty(_aval_shape(e.outvars[ncar + k].aval), dtype=object))
        return carry + stacked

    def _while(self, e, ins, max_unroll=None):
        P_ = e.params
        cn, bn = P_["cond_nconsts"], P_["body_nconsts"]
        cc, bc, state = ins[:cn], ins[cn:cn + bn], list(ins[cn + bn:])
        if "while" in self.hooks:
            return self.hooks["while"](self, e, cc, bc, state)
        max_unroll = max_unroll or self.hooks.get("while_unroll", 64)
        for _ in range(max_unroll + 1):
            c = split(self.sub(P_["cond_jaxpr"], list(cc) + state)[0][()])[0]
            if is_z(c):
                c = DEC.decide(c)
            if is_z(c):
                raise Unsupported("while: condition not decidable under the case assumption (use invariant mode)")
            if not c:
                return state
            state = list(self.sub(P_["body_jaxpr"], list(bc) + state))
        raise Unsupported("while: unroll bound exceeded")

    def _trisolve(self, e, ins):
        P_ = e.params
        a, b = ins
        if not P_["left_side"] or P_["conjugate_a"]:
            raise Unsupported("triangular_solve variant")
        lower = P_["lower"]
        unit = P_["unit_diagonal"]
        ta = P_["transpose_a"]
        tname = getattr(ta, "name", str(ta))
        if tname not in ("NO_TRANSPOSE", "0", "False"):
            if tname in ("TRANSPOSE", "1", "True"):
                a = a.T
                lower = not lower
            else:
                raise Unsupported("triangular_solve transpose " + tname)
        n = a.shape[0]
        x = np.empty(b.shape, dtype=object)
        for col in range(b.shape[1]):
            rng = range(n) if lower else range(n - 1, -1, -1)
            for i in rng:
                s = b[i, col]
                js = range(i) if lower else range(i + 1, n)
                for j in js:
                    s = sub(s, mul(a[i, j], x[j, col]))
                x[i, col] = s if unit else div(self.ctx, s, a[i, i])
        return x

    def _sort(self, e, ins):
        """sorting network (bubble) on the last/selected dimension; multi-operand sort by first num_keys"""
        P_ = e.params
        dim = P_["dimension"]
        nk = P_.get("num_keys", 1)
        arrs = [np.moveaxis(a, dim, -1).copy() for a in ins]
        n = arrs[0].shape[-1]
        if n > 6:
            raise Unsupported("sort n>6")
        for idx in np.ndindex(arrs[0].shape[:-1]):
            rows = [list(a[idx]) for a in arrs]
            for i in range(n):
                for j in range(n - 1 - i):
                    # lexicographic "greater" on keys -> swap (stable)
                    gt = False
                    eq = True
                    for k in range(nk):
                        gt = bor(gt, band(eq, cmp("gt", rows[k][j], rows[k][j + 1])))
                        eq = band(eq, cmp("eq", rows[k][j], rows[k][j + 1]))
                    for r in rows:
                        a_, b_ = r[j], r[j + 1]
                        r[j], r[j + 1] = ite(gt, b_, a_), ite(gt, a_, b_)
            for a, r in zip(arrs, rows):
                for k in range(n):
                    a[idx + (k,)] = r[k]
        return [np.moveaxis(a, -1, dim) for a in arrs]


def _shift_axis(c, batch, ndim):
    """position of original axis c after moving `batch` axes to the front"""
    order = list(batch) + [i for i in range(ndim) if i not in batch]
    return order.index(c)


def _is_key_aval(aval):
    try:
        return jax.dtypes.issubdtype(aval.dtype, jax.dtypes.prng_key)
    except Exception:
        return False


def _aval_shape(aval):
    sh = tuple(aval.shape)
    if _is_key_aval(aval):
        return sh + (2,)
    return sh


def _aval_dtype(aval):
    if _is_key_aval(aval):
        return np.dtype("uint32")
    return np.dtype(aval.dtype)


def _bitop(f, a, b):
    ta, tb = split(a)[0], split(b)[0]
    if (isinstance(ta, int) and not isinstance(ta, bool)) or (isinstance(tb, int) and not isinstance(tb, bool)) or (is_z(ta) and z3.is_int(ta)) or (is_z(tb) and z3.is_int(tb)):
        if not is_z(ta) and not is_z(tb):
            return (ta & tb) if f is band else (ta | tb)
        raise Unsupported("bitwise op on symbolic ints")
    return f(ta, tb)


def _idiv(a, b):
    if is_z(a) or is_z(b):
        za, zb = toz(a), toz(b)
        # C-style truncation
        q = za / zb
        return z3.If(z3.And(za % zb != 0, (za < 0) != (zb < 0)), q + z3.If(zb > 0, 1, -1) * 0 + _trunc_fix(za, zb), q)
    a, b = int(a), int(b)
    q = abs(a) // abs(b)
    return q if (a >= 0) == (b > 0) else -q


def _trunc_fix(za, zb):
    # z3 integer division is floor for positive divisor, ceil for negative (euclidean); convert to truncation
    return z3.If(zb > 0, z3.If(za < 0, 1, 0), z3.If(za < 0, 0, 0)) * 0 + z3.If(z3.And(zb > 0, za < 0), 1, z3.If(z3.And(zb < 0, za > 0), 0, 0))


def _irem(a, b):
    if is_z(a) or is_z(b):
        za, zb = toz(a), toz(b)
        q = _idiv(za, zb)
        return za - zb * q
    a, b = int(a), int(b)
    return int(math.fmod(a, b))


def _convert(a, nd):
    t, o, i = split(a)
    if is_z(t):
        if t.sort() == z3.BoolSort() and nd != np.bool_:
            r = z3.If(t, z3.IntVal(1), z3.IntVal(0)) if np.issubdtype(nd, np.integer) else z3.If(t, z3.RealVal(1), z3.RealVal(0))
        elif np.issubdtype(nd, np.floating) and t.sort() == z3.IntSort():
            r = z3.ToReal(t)
        elif nd == np.bool_ and t.sort() != z3.BoolSort():
            r = t != 0
        elif np.issubdtype(nd, np.integer) and t.sort() == z3.RealSort():
            # truncation toward zero
            r = z3.If(t >= 0, z3.ToInt(t), -z3.ToInt(-t))
        else:
            r = t
    else:
        if isinstance(a, float):
            return a
        if nd == np.bool_:
            r = bool(t)
        elif np.issubdtype(nd, np.integer):
            r = int(t) if not isinstance(t, Fraction) else int(math.trunc(t))
        else:
            r = Fraction(t)
    return join(r, o, i)


# ----------------------------------------------------------------------------------------
# proving
# ----------------------------------------------------------------------------------------
def log_lcm(ctx, t):
    if not is_z(t):
        return 0
    c0, atoms = linform(toreal(t))
    ds = [k.denominator for i, (a, k) in atoms.items() if _is_log(a)]
    if not ds:
        return 0
    return math.lcm(*ds)


def log_lcm_deep(ctx, t, depth=0):
    if not is_z(t):
        return 0
    t = toreal(t)
    it = find_ite(t)
    if it is not None and depth < 6:
        c, a, b = it.children()
        return math.lcm(max(1, log_lcm_deep(ctx, z3.substitute(t, (it, a)), depth + 1)),
                        max(1, log_lcm_deep(ctx, z3.substitute(t, (it, b)), depth + 1)))
    return log_lcm(ctx, t)


def has_log(ctx, t):
    if not is_z(t):
        return False
    seen = set()
    st = [t]
    while st:
        e = st.pop()
        i = e.get_id()
        if i in seen:
            continue
        seen.add(i)
        if _is_log(e):
            return True
        st.extend(e.children())
    return False


def cmp_exp(ctx, op, a, b):
    """a op b  <=>  exp(m a) op exp(m b) for m>0 ; used when LOG atoms are present"""
    d = _sub(a, b)
    if not is_z(d) or not has_log(ctx, d):
        return None
    mlt = log_lcm_deep(ctx, d)
    if mlt == 0:
        return None
    e = _sexp_plain(ctx, _mul(Fraction(mlt), d))
    return _cmp(op, e, Fraction(1))


_APPS_CACHE = {}


def _apps_of(t):
    """frozenset of ids of EXP/LOG/UF applications and fresh sqrt consts inside t (cached per term; the cache keeps
    the term alive so ids are not reused)"""
    i0 = t.get_id()
    hit = _APPS_CACHE.get(i0)
    if hit is not None:
        return hit[1]
    acc = set()
    seen = set()
    st = [t]
    while st:
        e = st.pop()
        i = e.get_id()
        if i in seen:
            continue
        seen.add(i)
        sub = _APPS_CACHE.get(i)
        if sub is not None and i != i0:
            acc |= sub[1]
            continue
        if z3.is_app(e):
            n = e.num_args()
            if n == 0:
                if e.decl().kind() == z3.Z3_OP_UNINTERPRETED and e.decl().name().startswith("sqrt!"):
                    acc.add(i)
                continue
            if e.decl().kind() == z3.Z3_OP_UNINTERPRETED:
                acc.add(i)
            st.extend(e.children())
    fs = frozenset(acc)
    _APPS_CACHE[i0] = (t, fs)
    return fs


def _apps(t, acc=None):
    fs = _apps_of(t)
    if acc is None:
        return set(fs)
    acc |= fs
    return acc


def relevant_facts(ctx, exprs, extra_rounds=1, pool=None):
    need = set()
    for e in exprs:
        if is_z(e):
            _apps(e, need)
    out = []
    seen = set()
    for f in (ctx.facts if pool is None else pool):
        i = f.get_id()
        if i in seen:
            continue
        seen.add(i)
        if _apps(f) <= need:
            out.append(f)
    return out


_PURIFY = z3.Then("simplify", "purify-arith", "qfnra-nlsat")


def _has_uf(t):
    seen = set()
    st = [t]
    while st:
        e = st.pop()
        i = e.get_id()
        if i in seen:
            continue
        seen.add(i)
        if z3.is_app(e):
            if e.decl().kind() == z3.Z3_OP_UNINTERPRETED and e.num_args() > 0:
                return True
            if e.decl().kind() in (z3.Z3_OP_TO_INT, z3.Z3_OP_IS_INT, z3.Z3_OP_IDIV, z3.Z3_OP_MOD, z3.Z3_OP_REM) or (z3.is_const(e) and z3.is_int(e) and not z3.is_int_value(e)):
                return True
            st.extend(e.children())
    return False


class ProofStats:
    def __init__(self):
        self.queries = 0
        self.solver_s = 0.0
        self.rlimit_used = 0
        self.samples = []

    def merge_decider(self):
        self.queries += DEC.n
        self.solver_s += DEC.t
        DEC.n = 0
        DEC.t = 0.0


STATS = ProofStats()


def check(ctx, assumptions, goal, rlimit=20_000_000, timeout=60_000, name="", want_model=True, facts=True, subst=None, alt_goals=(), abstract_ite=True):
    """returns ('unsat'|'sat'|'unknown', model|None).  goal: z3 Bool or python bool.
    subst: list of (fresh cut variable, defining term); applied to goal, assumptions and facts
    (sound because `var == term` is the cut's defining assumption)."""
    if not is_z(goal):
        if goal:
            return "unsat", None
        goal = z3.BoolVal(False)
    g = z3.simplify(goal)
    if z3.is_true(g):
        return "unsat", None
    variants, strategies = [], []
    for gl in [goal] + [g_ for g_ in alt_goals if is_z(g_)]:
        asm = list(assumptions)
        if subst:
            sb = [(a, toreal(b) if z3.is_real(a) else toz(b)) for a, b in subst]
            gl = z3.substitute(gl, *sb)
            asm = [z3.substitute(a, *sb) for a in asm]
            allf = [z3.substitute(f, *sb) for f in ctx.facts]
            fs = relevant_facts(ctx, asm + [gl], pool=allf) if facts else []
        else:
            fs = relevant_facts(ctx, asm + [gl]) if facts else []
        allc = asm + list(fs) + [z3.Not(gl)]
        variants.append(allc)
        strategies.append(["default"] if any(_has_uf(c) for c in allc) else ["purify-nlsat", "default"])
    trust = [True] * len(variants)
    nbase = len(variants)
    if abstract_ite:
        av = abstract_ites(variants[0])
        if av is not None:
            variants.append(av)
            strategies.append(["default"] if any(_has_uf(c) for c in av) else ["purify-nlsat", "default"])
            trust.append(False)
    # generalisation: every uninterpreted application (EXP/LOG/random draws ...) becomes a fresh variable (congruence dropped), which
    # makes the query UF-free so that nlsat applies; only `unsat` of this variant is meaningful
    for vi in range(nbase):
        if any(_has_uf(c) for c in variants[vi]):
            uv = abstract_ufs(variants[vi])
            if uv is not None:
                variants.append(uv)
                strategies.append(["purify-nlsat"])
                trust.append(False)
    t = time.time()
    from . import ext
    rr, model, info = ext.run_portfolio(variants, strategies, timeout_s=timeout / 1000.0, want_model=want_model, trust_sat=trust)
    strategies = [x for st_ in strategies for x in st_]
    STATS.queries += len(strategies)
    STATS.solver_s += time.time() - t
    r = {"unsat": z3.unsat, "sat": z3.sat}.get(rr, z3.unknown)

    class _S:
        def to_smt2(self_):
            return info["smt2"]

        def model(self_):
            return model
    s = _S()
    if len(STATS.samples) < 2 and name:
        try:
            STATS.samples.append({"obligation": name, "smt2": s.to_smt2()[:4000], "result": str(r)})
        except Exception:
            pass
    if r == z3.unsat:
        return "unsat", None
    if r == z3.sat:
        return "sat", s.model()
    return "unknown", None


def abstract_ufs(cons):
    """every maximal uninterpreted application with arguments is replaced by a fresh constant of its sort (consistently per term)"""
    found = {}

    def walk(e, seen):
        i = e.get_id()
        if i in seen:
            return
        seen.add(i)
        if z3.is_app(e) and e.num_args() > 0 and e.decl().kind() == z3.Z3_OP_UNINTERPRETED:
            found.setdefault(i, e)
            return
        for c in e.children():
            walk(c, seen)
    seen = set()
    for c in cons:
        walk(c, seen)
    if not found or len(found) > 60:
        return None
    sb = [(e, z3.FreshConst(e.sort(), "uf")) for e in found.values()]
    return [z3.substitute(c, *sb) for c in cons]


def abstract_ites(cons):
    """generalisation: every maximal real-valued If-term is replaced by a fresh variable (consistently).
    If the generalised query is unsat so is the original; `sat` of the generalisation is ignored."""
    found = {}
    order = []

    def walk(e, seen):
        i = e.get_id()
        if i in seen:
            return
        seen.add(i)
        if z3.is_app(e) and e.decl().kind() == z3.Z3_OP_ITE and not z3.is_bool(e):
            if i not in found:
                found[i] = e
                order.append(e)
            return
        for c in e.children():
            walk(c, seen)
    seen = set()
    for c in cons:
        walk(c, seen)
    if not order:
        return None
    sb = [(e, z3.FreshConst(e.sort(), "ite")) for e in order]
    return [z3.substitute(c, *sb) for c in cons]


def prove_eq(ctx, assumptions, lhs, rhs, name="", **kw):
    """lhs == rhs for plain values, trying the direct query then the exp-goal tactic"""
    if not is_z(lhs) and not is_z(rhs):
        return ("unsat", None) if lhs == rhs else ("sat", None)
    zl, zr = toreal(lhs), toreal(rhs)
    if zl.eq(zr):
        return "unsat", None
    d = _sub(lhs, rhs)
    uselog = has_log(ctx, d) if is_z(d) else False
    if not uselog:
        return check(ctx, assumptions, zl == zr, name=name, **kw)
    # p / q == r with logarithms in the denominator: cross-multiply (q != 0 is part of the definedness obligation)
    for a_, b_ in ((zl, zr), (zr, zl)):
        if z3.is_app(a_) and a_.decl().kind() == z3.Z3_OP_DIV and has_log(ctx, a_.arg(1)):
            if znum(a_.arg(0)) is not None and znum(a_.arg(0)) != 0 and is_z(b_):
                # c / q == r  <=>  q == c / r   (r != 0 proved first); keeps the logarithms' coefficients numeric
                st0, m0 = check(ctx, assumptions, b_ != 0, name=name + "[rhs != 0]", **kw)
                if st0 == "unsat":
                    return prove_eq(ctx, assumptions, a_.arg(1), a_.arg(0) / b_, name=name + "[inverted]", **kw)
            return prove_eq(ctx, assumptions, a_.arg(0), _mul(b_, a_.arg(1)), name=name + "[cross-multiplied]", **kw)
    # logarithms present: the direct goal and the exponentiated goal (A = B  <=>  exp(m(A-B)) = 1) race
    mlt = max(1, log_lcm_deep(ctx, d))
    e = _sexp_plain(ctx, _mul(Fraction(mlt), d))
    return check(ctx, assumptions, zl == zr, name=name + f"[direct | exp-goal x{mlt}]", alt_goals=[toreal(e) == 1], **kw)


def prove_pos(ctx, assume, t, depth=0, budget=None, timeout=10_000):
    """sufficient structural proof of t > 0: products / quotients of positive factors, sums of positive summands,
    both branches of an If under their conditions; the solver decides the leaves.  returns True / False (not proved)"""
    budget = budget if budget is not None else [200]
    if not is_z(t):
        return t > 0
    n = znum(t)
    if n is not None:
        return n > 0
    if budget[0] <= 0:
        return False
    k = t.decl().kind()
    ch = t.children()
    small = nonlinearity(t, 10**9, 61)[1] <= 60
    if small:
        # cheap whole-node attempt first (a falsifiable node is refuted at once instead of timing out on its parts)
        budget[0] -= 1
        st, _ = check(ctx, assume, t > 0, timeout=4_000)
        if st == "unsat":
            return True
        if st == "sat" and not _has_uf(t):
            return False
    if depth < 12:
        if k == z3.Z3_OP_MUL:
            # try: every factor positive; squares are handled by pairing equal factors
            rest = list(ch)
            ok = True
            while rest:
                f = rest.pop()
                twin = next((g for g in rest if g.eq(f)), None)
                if twin is not None:
                    rest.remove(twin)
                    st, _ = check(ctx, assume, f != 0, timeout=timeout)
                    budget[0] -= 1
                    if st != "unsat":
                        ok = False
                        break
                    continue
                if not prove_pos(ctx, assume, f, depth + 1, budget, timeout):
                    ok = False
                    break
            if ok:
                return True
        elif k == z3.Z3_OP_DIV:
            if prove_pos(ctx, assume, ch[0], depth + 1, budget, timeout) and prove_pos(ctx, assume, ch[1], depth + 1, budget, timeout):
                return True
        elif k == z3.Z3_OP_ADD:
            if all(prove_pos(ctx, assume, c, depth + 1, budget, timeout) for c in ch):
                return True
        elif k == z3.Z3_OP_ITE:
            c, a, b = ch
            if prove_pos(ctx, list(assume) + [c], a, depth + 1, budget, timeout) and prove_pos(ctx, list(assume) + [z3.Not(c)], b, depth + 1, budget, timeout):
                return True
        elif k == z3.Z3_OP_UNINTERPRETED and t.decl().name() == "EXP":
            return True
    if small:
        return False
    budget[0] -= 1
    st, _ = check(ctx, assume, t > 0, timeout=timeout)
    return st == "unsat"


def model_value(m, t):
    """evaluate term in model -> Fraction / int / bool / None"""
    if not is_z(t):
        return t
    v = m.eval(t, model_completion=True)
    if z3.is_rational_value(v):
        return Fraction(v.numerator_as_long(), v.denominator_as_long())
    if z3.is_int_value(v):
        return v.as_long()
    if z3.is_true(v):
        return True
    if z3.is_false(v):
        return False
    if z3.is_algebraic_value(v):
        a = v.approx(30)
        return Fraction(a.numerator_as_long(), a.denominator_as_long())
    return None


def model_floats(m, arr):
    out = np.zeros(np.shape(arr), dtype=float)
    for idx in np.ndindex(out.shape):
        v = model_value(m, split(arr[idx])[0])
        out[idx] = float(v) if v is not None else 0.0
    return out


def reused_keys(ctx, since=0):
    """keys consumed by two DIFFERENT primitive applications (JAX: a key must be used once - drawn from OR split, never both, never twice).
    Terms are compared syntactically: keys derived by different split slots are different uninterpreted applications."""
    seen = {}
    dup = []
    for p, n, k0, k1 in ctx.key_uses[since:]:
        kid = (k0.get_id(), k1.get_id())
        if kid in seen and seen[kid][1] != n:
            dup.append((seen[kid][0], p, k0, k1))
        else:
            seen.setdefault(kid, (p, n))
    return dup
