"""Helpers shared by the E1 harnesses: tracing real flowjax code, symbolic parameters, replay."""
from __future__ import annotations

import json
import math
from fractions import Fraction

import numpy as np
import z3

import jax

jax.config.update("jax_enable_x64", True)
import jax.numpy as jnp  # noqa: E402
import equinox as eqx  # noqa: E402

from . import jx  # noqa: E402
from .jx import Ctx, Interp, oarr, oarr_s, symarr, split, toreal, is_z  # noqa: E402,F401


def leaves_of(module, filter_spec=eqx.is_inexact_array):
    params, static = eqx.partition(module, filter_spec)
    leaves, treedef = jax.tree_util.tree_flatten(params)
    paths = [jax.tree_util.keystr(p) for p, _ in jax.tree_util.tree_flatten_with_path(params)[0]]

    def mk(ls):
        return eqx.combine(jax.tree_util.tree_unflatten(treedef, list(ls)), static)
    return leaves, mk, paths


def f64(tree):
    """cast inexact arrays of a pytree to float64"""
    return jax.tree_util.tree_map(lambda l: l.astype(jnp.float64) if eqx.is_inexact_array(l) else l, tree)


def sym_leaves(leaves, prefix="p"):
    return [symarr(f"{prefix}{i}", l.shape) for i, l in enumerate(leaves)]


def trace(fn, *ex):
    return jax.make_jaxpr(fn)(*ex)


def zeros_like_shape(shape):
    return jnp.zeros(shape, jnp.float64)


def model_arr(m, arr):
    return jx.model_floats(m, arr)


def model_assignment(m, named):
    """named: dict name -> object array ; returns dict name -> nested float lists"""
    return {k: model_arr(m, v).tolist() for k, v in named.items()}


def plain(v):
    return split(v)[0]


def ok_of(v):
    t, o, i = split(v)
    return jx.band(o, (i == 0))


def all_ok(arr):
    r = True
    for v in np.asarray(arr, dtype=object).ravel():
        r = jx.band(r, ok_of(v))
    return r


def close(a, b, tol=1e-6, kappa=1.0):
    a = np.asarray(a, dtype=float)
    b = np.asarray(b, dtype=float)
    if a.shape != b.shape:
        return False
    both_nan = np.isnan(a) & np.isnan(b)
    d = np.abs(a - b)
    lim = tol * kappa * (1 + np.abs(b))
    okm = (d <= lim) | both_nan | ((a == b))
    return bool(np.all(okm))


def zabs(t):
    t = toreal(t)
    return z3.If(t >= 0, t, -t)


def frac(x):
    return Fraction(x)


def rv(x):
    return z3.RealVal(str(Fraction(x)))
