"""Instance zoo: every instance is built from the real flowjax constructors at check time.

A `Spec` describes how an instance is made symbolic:
  * `P_ex`     example values of the symbolic inputs (array leaves of the *unwrapped* float64
                module, optionally followed by static python floats turned into tracers),
  * `P_sym`    the z3 variables standing for them, `inv` the representation invariant assumed,
  * `fn(m)`    a function (P, x, cond) -> output calling the REAL method `m` of the rebuilt module,
  * `x_cases / y_cases` domain splits (each case: name, assumptions, lemma about the image used
                for the staged cut, kink flag + neighbours for the one-sided Jacobian oracle).
"""
from __future__ import annotations

import itertools
import math
from fractions import Fraction

import numpy as np
import z3

from .sym import *  # noqa: F401,F403  (enables x64 first)
from . import jx

import jax
import jax.numpy as jnp
import jax.random as jr
import equinox as eqx

import flowjax.bijections as fb
from flowjax.wrappers import unwrap


class Case:
    def __init__(self, name, assume=(), lemma=None, kink=False, neighbours=(), point=None):
        self.name = name
        self.assume = list(assume)
        self.lemma = lemma
        self.kink = kink
        self.neighbours = list(neighbours)   # names of adjacent open cases (one-sided oracle)
        self.point = point                   # substitution [(var, term)] defining the boundary point


class Spec:
    def __init__(self, name, module, *, unwrapped=True, inv=None, x_cases=None, y_cases=None, statics=None,
                 kappa=1.0, has_inverse=True, onto=True, cond_example=None, tags=(), note="", sym_override=None,
                 y_domain=None, seed=None, replay_P=None):
        self._seed = seed
        self._replay_P = replay_P
        self.name = name
        self.raw_module = module
        m = unwrap(module) if unwrapped else module
        m = f64(m)
        self.module = m
        self.shape = tuple(m.shape)
        self.cond_shape = None if m.cond_shape is None else tuple(m.cond_shape)
        leaves, mk, paths = leaves_of(m)
        self.leaves, self.mk, self.paths = leaves, mk, paths
        self.statics = statics or []          # list of (name, where_fn, value)
        self.P_ex = [jnp.asarray(l, jnp.float64) for l in leaves] + [jnp.asarray(float(v), jnp.float64) for _, _, v in self.statics]
        self.P_names = [p.strip(".") or f"leaf{i}" for i, p in enumerate(paths)] + [n for n, _, _ in self.statics]
        self.P_sym = [symarr(_clean(n), np.shape(e)) for n, e in zip(self.P_names, self.P_ex)]
        if sym_override:
            sym_override(self)
        self.sym = dict(zip(self.P_names, self.P_sym))
        self._inv = inv
        self.kappa = kappa
        self.has_inverse = has_inverse
        self.onto = onto
        self.tags = set(tags)
        self.note = note
        self._x_cases = x_cases
        self._y_cases = y_cases
        self.y_domain = y_domain
        self.x_sym = symarr("x", self.shape)
        self.y_sym = symarr("y", self.shape)
        self.c_sym = None if self.cond_shape is None else symarr("c", self.cond_shape)
        self.x_ex = jnp.zeros(self.shape, jnp.float64) + 0.3
        self.c_ex = None if self.cond_shape is None else jnp.zeros(self.cond_shape, jnp.float64) + 0.2

    def invariants(self, ctx):
        return list(self._inv(self, ctx)) if self._inv else []

    def replay_P(self, P):
        """derived static quantities are recomputed by the REAL constructor from the free ones before a replay"""
        return self._replay_P(self, P) if self._replay_P else P

    def seeds(self, ctx, interp, Psym, assume):
        """solver-justified lemmas about internal quantities (proved here, then asserted for the decider)"""
        if not self._seed:
            return []
        return self._seed(self, ctx, interp, Psym, assume)

    def rebuild(self, P):
        nl = len(self.leaves)
        m = self.mk(P[:nl])
        for (name, where, _), v in zip(self.statics, P[nl:]):
            m = eqx.tree_at(where, m, v)
        return m

    def fn(self, method):
        def f(P, x, c=None):
            return getattr(self.rebuild(P), method)(x, c)
        return f

    def x_cases(self):
        if self._x_cases:
            return self._x_cases(self, self.x_sym)
        return [Case("all")]

    def y_cases(self):
        if self._y_cases:
            return self._y_cases(self, self.y_sym)
        return [Case("all")]


def _clean(n):
    return "".join(ch if ch.isalnum() else "_" for ch in n)


# ----------------------------------------------------------------------------------------
# leaf specs
# ----------------------------------------------------------------------------------------
def _nonzero(name):
    def inv(s, ctx):
        return [v != 0 for v in s.sym[name].ravel()]
    return inv


def _scalar_sign_cases(s, v):
    x = v[()]
    return [Case("x<0", [x < 0]), Case("x==0", [x == 0]), Case("x>0", [x > 0])]


def spec_affine(shape=(2,)):
    b = fb.Affine(jnp.arange(1, 1 + int(np.prod(shape)), dtype=float).reshape(shape) * 0.5, jnp.full(shape, 2.0))
    return Spec(f"Affine{shape}", b, inv=_nonzero("scale"), note="scale != 0 (positive and negative)")


def spec_loc():
    return Spec("Loc(2,)", fb.Loc(jnp.array([0.5, -1.0])))


def spec_scale():
    return Spec("Scale(2,)", fb.Scale(jnp.array([0.5, 2.0])), inv=_nonzero("scale"))


def spec_triangular(dim=2, lower=True):
    arr = jnp.eye(dim) * 1.5 + 0.3
    b = fb.TriangularAffine(jnp.arange(dim, dtype=float), arr, lower=lower)

    def inv(s, ctx):
        T = s.sym["triangular"]
        out = []
        for i in range(dim):
            for j in range(dim):
                if i == j:
                    out.append(T[i, j] != 0)
        return out

    def override(s):
        # the unwrapped triangular matrix has structural zeros: keep them concrete
        T = s.P_sym[s.P_names.index("triangular")]
        for i in range(dim):
            for j in range(dim):
                if (j > i) if lower else (j < i):
                    T[i, j] = Fraction(0)
    return Spec(f"TriangularAffine(d={dim},{'lower' if lower else 'upper'})", b, inv=inv, sym_override=override,
                note="diagonal != 0; masked triangle structurally 0 (proved for the wrapper in C11)")


def spec_additive_condition():
    lin = eqx.nn.Linear(2, 3, key=jr.PRNGKey(0))
    return Spec("AdditiveCondition(Linear(2,3))", fb.AdditiveCondition(lin, (3,), (2,)))


def spec_exp():
    return Spec("Exp()", fb.Exp(), x_cases=_scalar_sign_cases, onto=False,
                y_cases=lambda s, v: [Case("0<y<1", [v[()] > 0, v[()] < 1]), Case("y==1", [v[()] == 1]), Case("y>1", [v[()] > 1])])


def spec_exp_vec():
    return Spec("Exp((2,))", fb.Exp((2,)), onto=False, y_cases=lambda s, v: [Case("y>0", [t > 0 for t in v.ravel()])])


def spec_softplus():
    return Spec("SoftPlus()", fb.SoftPlus(), x_cases=_scalar_sign_cases, onto=False,
                y_cases=lambda s, v: [Case("y>0", [v[()] > 0])])


def spec_tanh():
    return Spec("Tanh()", fb.Tanh(), x_cases=_scalar_sign_cases, onto=False,
                y_cases=lambda s, v: [Case("-1<y<0", [v[()] > -1, v[()] < 0]), Case("y==0", [v[()] == 0]), Case("0<y<1", [v[()] > 0, v[()] < 1])])


def spec_leakytanh(max_val=3.0, shape=()):
    """static floats max_val / linear_grad / intercept become symbolic under the constructor's contract
    g = 1 - tanh(m)^2, c = tanh(m) - g*m, m > 0 (contract validated numerically against the real constructor)."""
    b = fb.LeakyTanh(max_val, shape)
    statics = [("max_val", lambda m: m.max_val, b.max_val), ("linear_grad", lambda m: m.linear_grad, b.linear_grad),
               ("intercept", lambda m: m.intercept, b.intercept)]

    def inv(s, ctx):
        m, g, c = s.sym["max_val"][()], s.sym["linear_grad"][()], s.sym["intercept"][()]
        e2 = jx._sexp_plain(ctx, 2 * m)
        th = 1 - 2 / (e2 + 1)
        s.tanh_m = th
        return [m > 0, g == 1 - th * th, c == th - g * m]

    def xc(s, v):
        m = s.sym["max_val"][()]
        if shape != ():
            return [Case("all")]
        x = v[()]
        return [Case("x<-m", [x < -m]), Case("x==-m", [x == -m]), Case("-m<x<0", [x > -m, x < 0]), Case("x==0", [x == 0]),
                Case("0<x<m", [x > 0, x < m]), Case("x==m", [x == m]), Case("x>m", [x > m])]

    def yc(s, v):
        if shape != ():
            return [Case("all")]
        y = v[()]
        m_ = s.sym["max_val"][()]
        t = 1 - 2 / (jx._sexp_plain(jx.Ctx(), 2 * m_) + 1)
        return [Case("y<-t", [y < -t]), Case("y==-t", [y == -t]), Case("-t<y<0", [y > -t, y < 0]), Case("y==0", [y == 0]),
                Case("0<y<t", [y > 0, y < t]), Case("y==t", [y == t]), Case("y>t", [y > t])]
    def rp(s, P):
        m = float(np.asarray(P[-3]))
        if not (m > 0):
            return P
        r = fb.LeakyTanh(m, shape)
        return list(P[:-3]) + [r.max_val, r.linear_grad, r.intercept]
    return Spec(f"LeakyTanh(sym max_val{'' if shape == () else shape})", b, statics=statics, inv=inv, x_cases=xc, y_cases=yc, replay_P=rp,
                note="max_val, linear_grad, intercept symbolic under the constructor contract")


def rqs_cases(var_pos_name, other_pos_name):
    """cases for an input v against knot vector `var_pos_name`; lemma places the image in the same bin of the other"""
    def cases(s, v):
        t = v[()]
        A, B = (jx.toreal(e) for e in s.interval)
        P = [jx.toreal(e) for e in s.sym[var_pos_name]]
        Q = [jx.toreal(e) for e in s.sym[other_pos_name]]
        n = len(P)
        cs = [Case("v<A", [t < A], lambda o: [o[()] == t]),
              Case("v==A", [t == A], lambda o: [o[()] == A], kink=True, neighbours=["v<A", "bin0"], point=[(t, A)])]
        for i in range(n - 1):
            cs.append(Case(f"bin{i}", [P[i] < t, t < P[i + 1]], lambda o, i=i: [Q[i] < o[()], o[()] < Q[i + 1]]))
            if i < n - 2:
                cs.append(Case(f"knot{i + 1}", [t == P[i + 1]], lambda o, i=i: [o[()] == Q[i + 1]]))
        cs += [Case("v==B", [t == B], lambda o: [o[()] == B], kink=True, neighbours=[f"bin{n - 2}", "v>B"], point=[(t, B)]),
               Case("v>B", [t > B], lambda o: [o[()] == t])]
        return cs
    return cases


def spec_rqs(knots=1, interval=(-2, 2)):
    b = fb.RationalQuadraticSpline(knots=knots, interval=interval)
    A, B = b.interval

    def inv(s, ctx):
        out = []
        n = knots + 2
        for nm in ("x_pos", "y_pos"):
            arr = [jx.toreal(v) for v in s.sym[nm]]
            out += [arr[i] < arr[i + 1] for i in range(n - 1)]
        out += [v > 0 for v in s.sym["derivatives"]]
        return out

    def override(s):
        # the interval ends are static python numbers: keep them concrete in the knot vectors
        for nm in ("x_pos", "y_pos"):
            arr = s.P_sym[s.P_names.index(nm)]
            arr[0] = Fraction(A)
            arr[knots + 1] = Fraction(B)
    sp = Spec(f"RQS(K={knots},interval={interval})", b, inv=inv, sym_override=override, x_cases=rqs_cases("x_pos", "y_pos"), y_cases=rqs_cases("y_pos", "x_pos"),
              kappa=1e3, note="knots strictly increasing from interval[0] to interval[1] (ends concrete), derivatives > 0 (proved for the wrapper in C11)")
    sp.interval = (Fraction(A), Fraction(B))
    return sp


def spec_planar(dim=2, cond=False, leaky=True, slope=0.1):
    key = jr.PRNGKey(1)
    kw = dict(negative_slope=slope) if leaky else {}
    if cond:
        b = fb.Planar(key, dim=dim, cond_dim=2, width_size=2, depth=1, **kw)
    else:
        b = fb.Planar(key, dim=dim, **kw)
        b = eqx.tree_at(lambda p: p.params, b, jnp.array([0.7, -0.4, 0.3, 0.5, 0.2])[: 2 * dim + 1] if dim == 2 else jnp.array([0.7, 0.3, 0.2]))

    def inv(s, ctx):
        if cond:
            return []
        p = s.sym["params"]
        return [z3.Or(*[p[i] != 0 for i in range(dim)])]
    def seed(s, ctx, I, Psym, assume):
        if cond:
            return []
        from flowjax.bijections.planar import _UnconditionalPlanar
        j = jax.make_jaxpr(lambda p: _UnconditionalPlanar(p[:dim], p[dim:2 * dim], p[-1], slope if leaky else None).get_act_scale())(s.P_ex[0])
        uh = I.run(j, Psym[0])[0]
        p = Psym[0]
        dot = Fraction(0)
        for i in range(dim):
            dot = jx.add(dot, jx.mul(p[i], uh[i]))
        dt, do, di = jx.split(dot)
        smax = Fraction(max(1.0, slope)) if leaky else Fraction(1)
        lem = z3.And(jx.toz(jx.band(do, di == 0)), jx.toreal(dt) * z3.RealVal(str(smax)) > -1)
        st, _ = jx.check(ctx, assume, lem, name="seed: 1 + max_slope * w.u_hat > 0")
        uht = [jx.split(v)[0] for v in uh]
        oks = jx.band(*[jx.band(jx.split(v)[1], jx.split(v)[2] == 0) for v in uh])
        if st == "unsat" and oks is not True:
            st, _ = jx.check(ctx, assume, jx.toz(oks), name="seed: u_hat defined")
        if st != "unsat" or any(not jx.is_z(v) for v in uht):
            return []
        # cut: u_hat becomes fresh variables constrained only by the proved lemma
        fr = symarr("uhat", (dim,))
        s._uhat = fr
        for i in range(dim):
            I.abstract[uht[i].get_id()] = fr[i]
        ctx.keep += list(uht)
        return [sum((jx.toreal(p[i]) * fr[i] for i in range(dim)), z3.RealVal(0)) * z3.RealVal(str(smax)) > -1]
    return Spec(f"Planar(d={dim},{'leaky_relu' if leaky else 'tanh'}{'' if slope == 0.1 or not leaky else ',negative_slope=' + str(slope)}{',cond' if cond else ''})", b, inv=inv, has_inverse=leaky, seed=seed,
                tags=("planar",), note="w != 0 (get_act_scale divides by |w|^2); lemma 1 + max(1, negative_slope) * w.u_hat > 0 proved from the traced get_act_scale and seeded")


def spec_permute(perm):
    perm = np.asarray(perm)
    return Spec(f"Permute({perm.tolist()})", fb.Permute(jnp.asarray(perm)))


def spec_flip(shape=(3,)):
    return Spec(f"Flip({shape})", fb.Flip(shape))


def spec_identity(shape=(2,)):
    return Spec(f"Identity({shape})", fb.Identity(shape))


LEAVES = {
    "affine2": lambda: spec_affine((2,)),
    "affine22": lambda: spec_affine((2, 2)),
    "affine0": lambda: spec_affine(()),
    "affine_bcast": lambda: Spec("Affine(loc(3,),scale())", fb.Affine(jnp.array([0.5, -1.0, 2.0]), 2.0), inv=_nonzero("scale"), note="loc and scale broadcast by the constructor"),
    "affine_bcast2": lambda: Spec("Affine(loc(2,3),scale(3,))", fb.Affine(jnp.arange(6.0).reshape(2, 3), jnp.array([2.0, 0.5, 3.0])), inv=_nonzero("scale")),
    "loc": spec_loc,
    "scale": spec_scale,
    "tri2l": lambda: spec_triangular(2, True),
    "tri2u": lambda: spec_triangular(2, False),
    "tri3l": lambda: spec_triangular(3, True),
    "tri3u": lambda: spec_triangular(3, False),
    "addcond": spec_additive_condition,
    "exp": spec_exp,
    "expvec": spec_exp_vec,
    "softplus": spec_softplus,
    "tanh": spec_tanh,
    "leakytanh": spec_leakytanh,
    "rqs1": lambda: spec_rqs(1, (-2, 2)),
    "rqs1b": lambda: spec_rqs(1, (1, 3)),
    "rqs2": lambda: spec_rqs(2, (-2, 2)),
    "rqs2b": lambda: spec_rqs(2, (-1, 3)),
    "rqs3": lambda: spec_rqs(3, (-2, 2)),
    "planar2": lambda: spec_planar(2, False, True),
    "planar1": lambda: spec_planar(1, False, True),
    "planar2c": lambda: spec_planar(2, True, True),
    "planar2tanh": lambda: spec_planar(2, False, False),
    "planar2s": lambda: spec_planar(2, False, True, 2.0),     # documented: any positive slope (also > 1); 1/2 is exact in binary
    "perm3": lambda: spec_permute([2, 0, 1]),
    "perm22": lambda: spec_permute([[3, 0], [1, 2]]),
    "flip3": lambda: spec_flip((3,)),
    "flip22": lambda: spec_flip((2, 2)),
    "identity": spec_identity,
}


def get(name):
    if name in LEAVES:
        sp = LEAVES[name]()
    else:
        from . import zoo2
        sp = zoo2.get(name)
    sp.key = name
    return sp
