"""Translator validation: the symbolic interpreter (vlib/jx.py) against concrete execution of the same jaxpr by JAX.

For a traced function and concrete float64 inputs, the interpreter is run on the exact rationals those floats denote; the resulting
z3 terms (with uninterpreted EXP/LOG/sqrt constants left in) are evaluated numerically with mpmath (50 digits) and compared with what
JAX itself computes.  A disagreement beyond 1e-8 relative means the encoding misrepresents the code: it is a harness error (exit 2),
never a verdict about flowjax.
"""
from __future__ import annotations

from fractions import Fraction

import numpy as np
import z3
import mpmath

from . import jx

mpmath.mp.dps = 50


def evalz(t, env=None):
    """numeric value (mpf / bool) of a ground z3 term built by the interpreter"""
    env = env or {}
    memo = {}

    def go(e):
        i = e.get_id()
        if i in memo:
            return memo[i]
        r = go1(e)
        memo[i] = r
        return r

    def go1(e):
        if z3.is_rational_value(e):
            return mpmath.mpf(e.numerator_as_long()) / mpmath.mpf(e.denominator_as_long())
        if z3.is_int_value(e):
            return mpmath.mpf(e.as_long())
        if z3.is_true(e):
            return True
        if z3.is_false(e):
            return False
        k = e.decl().kind()
        ch = e.children()
        if k == z3.Z3_OP_UNINTERPRETED:
            nm = e.decl().name()
            if e.num_args() == 0:
                if nm in env:
                    return env[nm]
                if z3.is_bool(e) and nm.split("!")[0] in ("cmpnan", "isnan", "isfin") or nm.split("_")[0] in ("cmpnan", "isnan", "isfin"):
                    return False     # outcome of a comparison on an undefined (NaN) operand: only reachable inside values that are not-ok anyway
                raise KeyError(nm)
            a = [go(c) for c in ch]
            if nm == "EXP":
                return mpmath.exp(a[0])
            if nm == "LOG":
                return mpmath.log(a[0])
            raise KeyError(nm)
        if k == z3.Z3_OP_ADD:
            return sum((go(c) for c in ch), mpmath.mpf(0))
        if k == z3.Z3_OP_SUB:
            r = go(ch[0])
            for c in ch[1:]:
                r = r - go(c)
            return r
        if k == z3.Z3_OP_UMINUS:
            return -go(ch[0])
        if k == z3.Z3_OP_MUL:
            r = mpmath.mpf(1)
            for c in ch:
                r = r * go(c)
            return r
        if k in (z3.Z3_OP_DIV, z3.Z3_OP_IDIV):
            a, b = go(ch[0]), go(ch[1])
            if k == z3.Z3_OP_IDIV:
                return mpmath.floor(a / b)
            return a / b
        if k == z3.Z3_OP_MOD:
            a, b = go(ch[0]), go(ch[1])
            return a - b * mpmath.floor(a / b)
        if k == z3.Z3_OP_POWER:
            return go(ch[0]) ** go(ch[1])
        if k == z3.Z3_OP_TO_REAL or k == z3.Z3_OP_TO_INT:
            v = go(ch[0])
            return mpmath.floor(v) if k == z3.Z3_OP_TO_INT else v
        if k == z3.Z3_OP_ITE:
            return go(ch[1]) if go(ch[0]) else go(ch[2])
        if k == z3.Z3_OP_AND:
            return all(go(c) for c in ch)
        if k == z3.Z3_OP_OR:
            return any(go(c) for c in ch)
        if k == z3.Z3_OP_NOT:
            return not go(ch[0])
        if k == z3.Z3_OP_EQ:
            return go(ch[0]) == go(ch[1])
        if k == z3.Z3_OP_DISTINCT:
            vs = [go(c) for c in ch]
            return len(set(vs)) == len(vs)
        if k == z3.Z3_OP_LE:
            return go(ch[0]) <= go(ch[1])
        if k == z3.Z3_OP_LT:
            return go(ch[0]) < go(ch[1])
        if k == z3.Z3_OP_GE:
            return go(ch[0]) >= go(ch[1])
        if k == z3.Z3_OP_GT:
            return go(ch[0]) > go(ch[1])
        if k == z3.Z3_OP_IMPLIES:
            return (not go(ch[0])) or go(ch[1])
        if k == z3.Z3_OP_XOR:
            return bool(go(ch[0])) != bool(go(ch[1]))
        raise NotImplementedError(str(e.decl()))
    return go(t)


def _sqrt_env(ctx):
    """fresh sqrt constants s with s>=0, s*s==u recorded in ctx.sqrt_memo: numeric value sqrt(u)"""
    env = {}
    for key, val in getattr(ctx, "sqrt_memo", {}).items():
        try:
            s, u = val if isinstance(val, tuple) else (val, None)
        except Exception:  # noqa
            continue
        if u is not None and jx.is_z(s):
            try:
                env[s.decl().name()] = mpmath.sqrt(evalz(u, env))
            except Exception:  # noqa
                pass
    return env


def value_of(ctx, v):
    """numeric value (float, may be inf/nan) of an interpreter value at concrete inputs"""
    t, o, i = jx.split(v)
    env = _sqrt_env(ctx)

    def num(q):
        if jx.is_z(q):
            return evalz(q, env)
        if isinstance(q, bool):
            return q
        return mpmath.mpf(Fraction(q).numerator) / mpmath.mpf(Fraction(q).denominator)
    okv = num(o) if jx.is_z(o) else bool(o)
    iv = int(num(i)) if jx.is_z(i) else int(i)
    if not okv:
        return float("nan")
    if iv != 0:
        return float("inf") * iv
    r = num(t)
    if isinstance(r, bool):
        return float(r)
    return float(r)


def compare(fn, args, rtol=1e-8, atol=1e-10):
    """fn(*args) traced; returns (ok, detail).  args: pytree-free list of float64 / int arrays"""
    import jax
    import jax.numpy as jnp
    j = jax.make_jaxpr(fn)(*args)
    want = jax.tree_util.tree_leaves(fn(*args))
    ctx = jx.Ctx()
    I = jx.Interp(ctx)
    jx.set_path([], ctx.facts)
    try:
        flat_args = jax.tree_util.tree_leaves(args)
        got = I.run(j, *[jx.oarr(np.asarray(a)) for a in flat_args])
    finally:
        jx.set_path(None)
    worst = 0.0
    for w, g in zip(want, got):
        w = np.asarray(w)
        if tuple(w.shape) != tuple(g.shape):
            return False, f"shape {g.shape} vs {w.shape}"
        for idx in np.ndindex(w.shape):
            gv = value_of(ctx, g[idx])
            wv = float(w[idx])
            if np.isnan(wv) or np.isnan(gv):
                # the interpreter's not-ok is conservative (may be NaN where IEEE gives a number) but a NaN in JAX must be not-ok
                if np.isnan(wv) and not np.isnan(gv):
                    return False, f"JAX gives NaN at {idx} but the encoding gives {gv}"
                continue
            if np.isinf(wv) or np.isinf(gv):
                if wv != gv:
                    return False, f"element {idx}: JAX {wv} vs encoding {gv}"
                continue
            err = abs(gv - wv) / (atol / rtol + abs(wv))
            worst = max(worst, err)
            if err > rtol:
                return False, f"element {idx}: JAX {wv!r} vs encoding {gv!r}"
    return True, f"max relative deviation {worst:.2e}"
