#!/usr/bin/env python3
"""Regenerates MANIFEST.json from the table below (claimed checks) + not_applicable list."""
import json, os
V = os.path.dirname(os.path.dirname(os.path.abspath(__file__)))
E1 = "jx2smt"; E2 = "pysym"
CL = {
 "C01": (E1, "symbolic execution of the traced jaxprs of transform/inverse (+_and_log_det) with all parameters symbolic; z3 proves both round trips per domain case (boundary points are their own cases); witnesses replayed on the real code",
         "floats as exact reals; shape/knot/layer bounds in evidence; parameters range over the representation invariant proved in C11; flows' bijections and MAF inverse-direction in thorough tier only"),
 "C02": (E1, "exp(reported log-det) == |det J| with J interpreted from the jaxpr of jax.jacfwd(transform) (independent oracle), inverse log-det == -forward log-det at the inverse image, scalar avals; z3 per domain case",
         "floats as exact reals; one-sided Jacobian oracle at the spline interval ends (autodiff tie convention); bounds in evidence"),
 "C03": (E1, "two traces of PUBLIC methods with shared symbolic parameters are proved equal by z3: log_prob(x) vs base.log_prob(inverse) + inverse log-det; sample(key) vs transform(base.sample(key)) with random primitives as uninterpreted functions of the key; sample_and_log_prob vs (sample, log_prob(sample)); merge_transforms() vs the nested distribution; counterexample candidates replayed on the real distributions",
         "three constructible factories x orientation x conditional; BNAF / triangular-spline factories cannot be constructed here; third clause proved for affine-type transforms (elsewhere follows from clauses 1-2 with C01/C02)"),
 "C05": (E1, "the traced log_prob of every family (parameters and x symbolic) is proved equal by z3 to the textbook log-density written as z3 terms (1e-9 tolerance only for float literals), -inf outside the support where the code selects it, accessor-parameterised, summed over event dimensions; mixtures: exp(log_prob) == softmax-weighted sum for ARBITRARY component log-densities, summands are the components' log-densities, invariance under weight rescaling; sample(key) == loc + scale * standard sample(key)",
         "NOT decided: that samples follow the density (statistical). lgamma uninterpreted; unwrapped parameters under the invariant proved in C11; shapes () and (2,)"),
 "C06": (E1, "the batched public calls are traced at every pair of leading batch shapes of a lattice and interpreted symbolically; every output element is proved equal to the unbatched call on the slice picked by NumPy broadcasting (reference slices chosen with NumPy, not jnp); result shapes; sampling: element i equals the unbatched private draw with its own key split(key, n)[i] (PRNG primitives are per-key uninterpreted functions), same key => identical terms",
         "batch lattice {(),(1,),(2,),(2,1),(1,2)}^2 x sample_shapes {(),(2,),(2,1)}; three distributions incl. scalar event with scalar condition; statistical independence of jax.random trusted"),
 "C07": (E1, "the traced transform of every elementary bijection is proved equal (z3, per domain case) to reference formulas written from the documentation / cited papers (affine, triangle of the given matrix, exp/softplus/tanh, leaky-tanh tangent line, all permutations, planar with the constrained u, eq. 4 of the spline paper per bin, knots, derivative at knots, monotonicity, identity outside / at initialisation); constructors traced with symbolic arguments",
         "floats as exact reals; K=1 (quick) / K<=3 (thorough); LeakyTanh constructor constants validated numerically (1e-12) for 5 values of max_val; Permute enumerated over all permutations of <=4 elements"),
 "C15": (E2, "the real fit_to_data / train_val_split / get_batches / _add_batch run on fake arrays whose rows are symbolic tags; jax.random.permutation is an uninterpreted bijection per (key, length); z3 proves partition, x/condition pairing, at-most-once use, trailing-remainder-only skipping, no validation leakage, fresh keys and reproducibility for ALL permutations; failures replayed on the real fit_to_data with host callbacks",
         "sizes enumerated (n<=8 quick, n<=14 thorough); contract of jr.permutation / jr.split as stated; list-backed fake arrays"),
 "C09": (E1, "raw network weights are symbolic and the masks are concrete selects inside the traced jaxpr: forbidden dependencies vanish by constant folding or are refuted by a two-copy z3 query (MAF outputs and transformer parameters, coupling blocks, BNAF Jacobian upper triangle), BNAF diagonal > 0 by structural sign analysis with z3 at the leaves, rank_based_mask on symbolic integer ranks; permitted-dependency completeness by a replayed all-positive witness",
         "grid bounds in evidence; block masks enumerated exhaustively over small sizes (sizes are their only inputs); weight-norm rows non-degenerate"),
 "C10": (E1, "the cond/body jaxprs of the two while loops of the real _bisection_search are executed ONCE from an arbitrary symbolic state with the function argument bound to an uninterpreted strictly increasing F (F(r)=0): inductive step, exit => |mid-r|<=tol, adaptation invariant + ranking function, glue between loops, returned midpoint; autoregressive driver inspected symbolically; bounded full unrolling cross-check",
         "induction over iteration counts / coordinates stated in DESIGN; floats as reals (tolerances below float resolution excluded); lower<upper precondition"),
 "C11": (E1, "raw (unconstrained) parameters are the symbolic inputs and the constraint functions (softplus, softmax/cumsum, where-masks, weight norm, log_softmax, get_act_scale) are in the traced jaxpr: z3 proves positivity / ordering / normalisation / norm / invertibility for every real raw value, constructor round trips for all valid arguments, and that the recorded eqx.error_if predicates hold exactly on the invalid arguments",
         "exact reals (float underflow of softplus at |raw|>~50 outside the claim); K<=2 quick / 3 thorough; cholesky trusted"),
 "C13": (E2, "the real argument-check wrapper, distribution shape check and constructors are executed on symbolic shapes by a re-execution symbolic executor; z3 proves on every path: raises <=> documented mismatch; MRO closure over all concrete classes; avals of traced methods",
         "stubs: arraylike_to_array/unwrap identity on fake arrays; rank <= 3; Partial index check enumerated concretely"),
 "C16": (E2, "the real fit_to_data / fit_to_variational_target bodies run on symbolic loss histories (all orderings of L distinct reals are one query set), symbolic max_patience / max_epochs / steps; z3 proves the documented stopping epoch, loss bookkeeping and returned parameters on every path; counterexamples replayed on the real loops with real jax/optax",
         "stubs for step (documented contract), argmin (first minimum), batching (one batch per epoch), tqdm/optax/partition; L <= 5 (quick) / 7 (thorough); distinct losses"),
}
NA = {"C04": "definite integral / goodness-of-fit statistics are not assertions an SMT query over the traced code can discharge (no quadrature or sampling in this technique); its decidable mechanism (onto-ness and total inverses C01, exact log-dets C02, one bijection on both paths C03) is decided under those properties"}
PENDING = "check not built yet in this commit (work in progress; see DESIGN.md section 5 for the plan)"
allp = [json.loads(l)["id"] for l in open(os.path.join(V, "properties.jsonl"))]
checks = []
for pid, (eng, text, note) in CL.items():
    checks.append({"property_id": pid, "quick_cmd": f"./vcheck {pid} --tier quick", "thorough_cmd": f"./vcheck {pid} --tier thorough",
                   "evidence_file": f"evidence/{pid}.json", "replay_cmd_template": "./vcheck replay {path}", "engine": eng,
                   "level_claimed": {"category": "model_checking", "text": "bounded symbolic checking decided by an SMT solver: " + text, "design_ref": f"DESIGN.md section 5 {pid}"},
                   "level_note": note, "technique": "solver-based checking of the real code (" + ("jaxpr -> z3 symbolic interpreter" if eng == E1 else "symbolic execution of the real Python code objects with z3") + ")"})
na = [{"property_id": p, "reason": NA.get(p, PENDING)} for p in allp if p not in CL]
m = {"version": 1, "setup_cmd": "bin/ensure_env",
     "hooks": {"guard": "FLOWJAX_VERIF", "enable": "no source hooks: observation is by tracing (jax.make_jaxpr) and by re-binding the real code objects to stub globals", "baseline_off_cmd": "bin/baseline_check", "source_commits": [], "add_only": True},
     "engines": [{"name": E1, "path": "vlib/jx.py", "serves_properties": [p for p, v in CL.items() if v[0] == E1], "kind_free_text": "symbolic interpreter of jaxprs of the real flowjax code into z3 terms (reals/ints/bools with definedness bits); verdicts by z3 5.1.0 subprocess portfolio (vlib/ext.py)"},
                 {"name": E2, "path": "vlib/pysym.py", "serves_properties": [p for p, v in CL.items() if v[0] == E2], "kind_free_text": "re-execution symbolic executor over the real Python code objects re-bound to stub globals; z3 feasibility per branch and post-condition per path"}],
     "checks": checks, "not_applicable": na,
     "notes": "All checks rebuild their encodings from /repo's working tree at run time. Exit 0 all obligations discharged; exit 1 replay-confirmed violation (VIOLATION line); exit 2 harness error / inconclusive must-discharge obligation."}
json.dump(m, open(os.path.join(V, "MANIFEST.json"), "w"), indent=1)
print("claimed", sorted(CL), "n/a", [x["property_id"] for x in na])
